// A batch Merkle opening that carries digests which are never used to recompute the root must be
// rejected: otherwise the same statement has many distinct accepted proofs (proof malleability),
// and the verifier accepts attacker-chosen bytes that are bound to nothing.
//
// The test builds an honest STARK proof for a small Fibonacci AIR, appends ONE extra digest to one
// of the node vectors of a batch Merkle proof inside it (main-trace openings, constraint openings,
// first FRI layer openings) and checks that `verify` returns an `Err` without panicking.
//
// Serialized layout relied upon (`Queries` and `FriProofLayer` share it):
//   [u32 LE: #value bytes][value bytes][u32 LE: #path bytes][path bytes]
// where the path bytes are `BatchMerkleProof::serialize_nodes`:
//   [u8: #node vectors] then, per vector, [u8: #digests][digests, 32 bytes each]

use std::panic::{catch_unwind, AssertUnwindSafe};

use winterfell::{
    crypto::{hashers::Blake3_256, DefaultRandomCoin},
    math::{fields::f128::BaseElement, FieldElement},
    matrix::ColMatrix,
    verify, AcceptableOptions, Air, AirContext, Assertion, AuxRandElements,
    ConstraintCompositionCoefficients, DefaultConstraintEvaluator, DefaultTraceLde, Deserializable,
    EvaluationFrame, FieldExtension, Proof, ProofOptions, Prover, Serializable, StarkDomain, Trace,
    TraceInfo, TracePolyTable, TraceTable, TransitionConstraintDegree, VerifierError,
};

type Blake3 = Blake3_256<BaseElement>;
const DIGEST_SIZE: usize = 32;

// FIBONACCI AIR / PROVER
// ================================================================================================

struct FibAir {
    context: AirContext<BaseElement>,
    result: BaseElement,
}

impl Air for FibAir {
    type BaseField = BaseElement;
    type PublicInputs = BaseElement;
    type GkrProof = ();
    type GkrVerifier = ();

    fn new(trace_info: TraceInfo, pub_inputs: BaseElement, options: ProofOptions) -> Self {
        let degrees = vec![TransitionConstraintDegree::new(1), TransitionConstraintDegree::new(1)];
        FibAir {
            context: AirContext::new(trace_info, degrees, 3, options),
            result: pub_inputs,
        }
    }

    fn context(&self) -> &AirContext<BaseElement> {
        &self.context
    }

    fn evaluate_transition<E: FieldElement + From<BaseElement>>(
        &self,
        frame: &EvaluationFrame<E>,
        _periodic_values: &[E],
        result: &mut [E],
    ) {
        let current = frame.current();
        let next = frame.next();
        result[0] = next[0] - (current[0] + current[1]);
        result[1] = next[1] - (current[1] + next[0]);
    }

    fn get_assertions(&self) -> Vec<Assertion<BaseElement>> {
        let last_step = self.trace_length() - 1;
        vec![
            Assertion::single(0, 0, BaseElement::ONE),
            Assertion::single(1, 0, BaseElement::ONE),
            Assertion::single(1, last_step, self.result),
        ]
    }
}

struct FibProver {
    options: ProofOptions,
}

impl Prover for FibProver {
    type BaseField = BaseElement;
    type Air = FibAir;
    type Trace = TraceTable<BaseElement>;
    type HashFn = Blake3;
    type RandomCoin = DefaultRandomCoin<Blake3>;
    type TraceLde<E: FieldElement<BaseField = BaseElement>> = DefaultTraceLde<E, Blake3>;
    type ConstraintEvaluator<'a, E: FieldElement<BaseField = BaseElement>> =
        DefaultConstraintEvaluator<'a, FibAir, E>;

    fn get_pub_inputs(&self, trace: &Self::Trace) -> BaseElement {
        trace.get(1, trace.length() - 1)
    }

    fn options(&self) -> &ProofOptions {
        &self.options
    }

    fn new_trace_lde<E: FieldElement<BaseField = BaseElement>>(
        &self,
        trace_info: &TraceInfo,
        main_trace: &ColMatrix<BaseElement>,
        domain: &StarkDomain<BaseElement>,
    ) -> (Self::TraceLde<E>, TracePolyTable<E>) {
        DefaultTraceLde::new(trace_info, main_trace, domain)
    }

    fn new_evaluator<'a, E: FieldElement<BaseField = BaseElement>>(
        &self,
        air: &'a FibAir,
        aux_rand_elements: Option<AuxRandElements<E>>,
        composition_coefficients: ConstraintCompositionCoefficients<E>,
    ) -> Self::ConstraintEvaluator<'a, E> {
        DefaultConstraintEvaluator::new(air, aux_rand_elements, composition_coefficients)
    }
}

/// Returns an honest proof and the public input it was generated for.
fn honest_proof() -> (Proof, BaseElement) {
    // 16 queries, blowup 8, no grinding, FRI folding factor 4, remainder degree < 8;
    // trace length 64 => LDE domain 512 => at least one FRI layer is committed to.
    let options = ProofOptions::new(16, 8, 0, FieldExtension::None, 4, 7);
    let mut trace = TraceTable::new(2, 64);
    trace.fill(
        |state| {
            state[0] = BaseElement::ONE;
            state[1] = BaseElement::ONE;
        },
        |_, state| {
            state[0] += state[1];
            state[1] += state[0];
        },
    );
    let prover = FibProver { options };
    let result = prover.get_pub_inputs(&trace);
    let proof = prover.prove(trace).expect("honest proving failed");
    (proof, result)
}

/// Runs the verifier under `catch_unwind`; the outer `Err` means the verifier panicked.
fn run_verifier(
    proof: Proof,
    result: BaseElement,
) -> std::thread::Result<Result<(), VerifierError>> {
    catch_unwind(AssertUnwindSafe(|| {
        verify::<FibAir, Blake3, DefaultRandomCoin<Blake3>>(
            proof,
            result,
            &AcceptableOptions::MinConjecturedSecurity(0),
        )
    }))
}

// BYTE SURGERY
// ================================================================================================

fn read_u32(bytes: &[u8], pos: usize) -> usize {
    u32::from_le_bytes(bytes[pos..pos + 4].try_into().unwrap()) as usize
}

/// `bytes[record..]` is a `[u32 #values][values][u32 #paths][paths]` record. Appends one surplus
/// digest to node vector `vector` (`usize::MAX` = the last one) of the serialized batch Merkle
/// proof in `paths`, fixing up the one-byte digest count and the u32 length prefix.
/// Returns the number of node vectors in the proof.
fn append_surplus_node(
    bytes: &mut Vec<u8>,
    record: usize,
    vector: usize,
    digest: [u8; 32],
) -> usize {
    let num_value_bytes = read_u32(bytes, record);
    let paths_len_pos = record + 4 + num_value_bytes;
    let num_path_bytes = read_u32(bytes, paths_len_pos);
    let paths_start = paths_len_pos + 4;

    let num_vectors = bytes[paths_start] as usize;
    assert!(num_vectors > 0, "honest proof has no node vectors?");
    let vector = if vector == usize::MAX { num_vectors - 1 } else { vector };
    assert!(vector < num_vectors);

    // walk to the requested vector
    let mut pos = paths_start + 1;
    for _ in 0..vector {
        pos += 1 + bytes[pos] as usize * DIGEST_SIZE;
    }
    let count = bytes[pos] as usize;
    assert!(count < 255);
    let end_of_vector = pos + 1 + count * DIGEST_SIZE;
    assert!(end_of_vector <= paths_start + num_path_bytes, "layout assumption is wrong");

    // one more digest in this vector ...
    bytes[pos] = (count + 1) as u8;
    // ... appended after the digests which are already there ...
    bytes.splice(end_of_vector..end_of_vector, digest);
    // ... and 32 more path bytes in the record
    let new_len = (num_path_bytes + DIGEST_SIZE) as u32;
    bytes[paths_len_pos..paths_len_pos + 4].copy_from_slice(&new_len.to_le_bytes());

    num_vectors
}

/// Serializes `value`, edits the record at `record`, and parses the bytes back.
fn with_surplus_node<T: Serializable + Deserializable>(
    value: &T,
    record: usize,
    vector: usize,
    digest: [u8; 32],
) -> T {
    let mut bytes = value.to_bytes();
    let honest_len = bytes.len();
    append_surplus_node(&mut bytes, record, vector, digest);
    assert_eq!(bytes.len(), honest_len + DIGEST_SIZE);
    let edited = T::read_from_bytes(&bytes).expect("edited component must still deserialize");
    // the edit survives a round trip, i.e. the edited object really is a different object
    assert_eq!(edited.to_bytes(), bytes);
    edited
}

#[derive(Clone, Copy, Debug)]
enum Target {
    TraceQueries,
    ConstraintQueries,
    FriLayer0,
}

fn edit(proof: &Proof, target: Target, vector: usize, digest: [u8; 32]) -> Proof {
    let mut edited = proof.clone();
    match target {
        Target::TraceQueries => {
            edited.trace_queries[0] = with_surplus_node(&proof.trace_queries[0], 0, vector, digest)
        },
        Target::ConstraintQueries => {
            edited.constraint_queries =
                with_surplus_node(&proof.constraint_queries, 0, vector, digest)
        },
        Target::FriLayer0 => {
            assert!(proof.fri_proof.num_layers() > 0, "parameters must yield a FRI layer");
            // a serialized FRI proof starts with a one-byte layer count, then layer 0
            edited.fri_proof = with_surplus_node(&proof.fri_proof, 1, vector, digest)
        },
    }
    // go through the wire format as well: this is what a verifier receives
    let wire = edited.to_bytes();
    assert_ne!(wire, proof.to_bytes(), "the edited proof must differ from the honest one");
    assert_eq!(wire.len(), proof.to_bytes().len() + DIGEST_SIZE);
    let reparsed = Proof::from_bytes(&wire).expect("edited proof must deserialize");
    assert_eq!(reparsed.to_bytes(), wire);
    reparsed
}

// TESTS
// ================================================================================================

#[test]
fn control_honest_proof_verifies() {
    let (proof, result) = honest_proof();
    // also after a serialization round trip
    let proof = Proof::from_bytes(&proof.to_bytes()).unwrap();
    match run_verifier(proof, result) {
        Ok(Ok(())) => (),
        Ok(Err(err)) => panic!("honest proof was rejected: {err}"),
        Err(_) => panic!("verifier panicked on the honest proof"),
    }
}

#[test]
fn control_substituted_node_is_rejected() {
    // sanity check of the byte surgery: overwriting (rather than appending) the last digest of the
    // first non-empty node vector must be rejected; shows the edited bytes are really looked at
    let (proof, result) = honest_proof();
    let mut bytes = proof.trace_queries[0].to_bytes();
    let num_value_bytes = read_u32(&bytes, 0);
    let paths_start = 4 + num_value_bytes + 4;
    let mut pos = paths_start + 1;
    while bytes[pos] == 0 {
        pos += 1;
    }
    let last_digest = pos + 1 + (bytes[pos] as usize - 1) * DIGEST_SIZE;
    bytes[last_digest] ^= 1;
    let mut edited = proof.clone();
    edited.trace_queries[0] = Deserializable::read_from_bytes(&bytes).unwrap();
    match run_verifier(edited, result) {
        Ok(Err(_)) => (),
        Ok(Ok(())) => panic!("a proof with a corrupted Merkle node was accepted"),
        Err(_) => panic!("verifier panicked"),
    }
}

fn check_rejected(target: Target) {
    let (proof, result) = honest_proof();
    let mut failures = Vec::new();
    for (vector, vector_name) in [(0, "first"), (usize::MAX, "last")] {
        for (digest, digest_name) in [([0u8; 32], "all-zero"), ([0xAB; 32], "0xAB..AB")] {
            let edited = edit(&proof, target, vector, digest);
            let what = format!(
                "{target:?}: one surplus {digest_name} digest appended to the {vector_name} node vector"
            );
            match run_verifier(edited, result) {
                Ok(Err(err)) => println!("{what}: rejected ({err})"),
                Ok(Ok(())) => failures.push(format!("{what}: ACCEPTED")),
                Err(_) => failures.push(format!("{what}: verifier PANICKED")),
            }
        }
    }
    assert!(
        failures.is_empty(),
        "batch Merkle openings with unused nodes must be rejected with an Err:\n  {}",
        failures.join("\n  ")
    );
}

#[test]
fn surplus_node_in_trace_queries_is_rejected() {
    check_rejected(Target::TraceQueries);
}

#[test]
fn surplus_node_in_constraint_queries_is_rejected() {
    check_rejected(Target::ConstraintQueries);
}

#[test]
fn surplus_node_in_fri_layer_is_rejected() {
    check_rejected(Target::FriLayer0);
}
