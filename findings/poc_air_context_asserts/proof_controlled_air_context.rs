// A proof carries its own `TraceInfo` and `ProofOptions`, and `verify()` hands both to
// `Air::new()`. Nothing a proof says about itself may make `verify()` panic: a proof whose context
// does not fit the AIR must be rejected with an error.
//
// The AIR below, `PowAir<D, X>`, describes a single-segment trace of one column with a single
// transition constraint of degree `D` (x' = x^D + 42) which is not enforced on the last `X` rows.
// With `D = 5` it needs a blowup factor of at least 4. With `D = 4` and `X = 6` it needs a trace of
// more than 8 rows, as at most `trace_length / 2 + 1` rows may be exempted.

use std::panic::{catch_unwind, AssertUnwindSafe};

use winterfell::{
    crypto::{hashers::Blake3_256, DefaultRandomCoin},
    math::{fields::f128::BaseElement, FieldElement, ToElements},
    matrix::ColMatrix,
    verify, AcceptableOptions, Air, AirContext, Assertion, AuxRandElements,
    ConstraintCompositionCoefficients, DefaultConstraintEvaluator, DefaultTraceLde,
    EvaluationFrame, FieldExtension, Proof, ProofOptions, Prover, Serializable, StarkDomain, Trace,
    TraceInfo, TracePolyTable, TraceTable, TransitionConstraintDegree, VerifierError,
};

type Hasher = Blake3_256<BaseElement>;
type Coin = DefaultRandomCoin<Hasher>;

const TRACE_LENGTH: usize = 64;
const MIN_SECURITY: u32 = 60;

// AIR: x' = x^D + 42, except on the last X rows
// ================================================================================================

#[derive(Clone)]
struct PublicInputs {
    start: BaseElement,
    result: BaseElement,
}

impl ToElements<BaseElement> for PublicInputs {
    fn to_elements(&self) -> Vec<BaseElement> {
        vec![self.start, self.result]
    }
}

struct PowAir<const D: u32, const X: usize> {
    context: AirContext<BaseElement>,
    start: BaseElement,
    result: BaseElement,
}

type QuinticAir = PowAir<5, 1>;

impl<const D: u32, const X: usize> Air for PowAir<D, X> {
    type BaseField = BaseElement;
    type PublicInputs = PublicInputs;
    type GkrProof = ();
    type GkrVerifier = ();

    fn new(trace_info: TraceInfo, pub_inputs: PublicInputs, options: ProofOptions) -> Self {
        let degrees = vec![TransitionConstraintDegree::new(D as usize)];
        PowAir {
            context: AirContext::new(trace_info, degrees, 2, options)
                .set_num_transition_exemptions(X),
            start: pub_inputs.start,
            result: pub_inputs.result,
        }
    }

    fn evaluate_transition<E: FieldElement + From<Self::BaseField>>(
        &self,
        frame: &EvaluationFrame<E>,
        _periodic_values: &[E],
        result: &mut [E],
    ) {
        let current = frame.current()[0];
        result[0] = frame.next()[0] - (current.exp(D.into()) + E::from(42u32));
    }

    fn get_assertions(&self) -> Vec<Assertion<Self::BaseField>> {
        let last_step = self.trace_length() - 1;
        vec![
            Assertion::single(0, 0, self.start),
            Assertion::single(0, last_step, self.result),
        ]
    }

    fn context(&self) -> &AirContext<Self::BaseField> {
        &self.context
    }
}

/// The same computation as `PowAir<5, 1>`, described with the help of a periodic column of 16
/// values (which the constraint multiplies by zero, so that both AIRs accept the same traces).
struct PeriodicAir(PowAir<5, 1>);

impl Air for PeriodicAir {
    type BaseField = BaseElement;
    type PublicInputs = PublicInputs;
    type GkrProof = ();
    type GkrVerifier = ();

    fn new(trace_info: TraceInfo, pub_inputs: PublicInputs, options: ProofOptions) -> Self {
        PeriodicAir(PowAir::new(trace_info, pub_inputs, options))
    }

    fn evaluate_transition<E: FieldElement + From<Self::BaseField>>(
        &self,
        frame: &EvaluationFrame<E>,
        periodic_values: &[E],
        result: &mut [E],
    ) {
        let current = frame.current()[0];
        result[0] = frame.next()[0] - (current.exp(5u32.into()) + E::from(42u32))
            + periodic_values[0] * E::ZERO;
    }

    fn get_assertions(&self) -> Vec<Assertion<Self::BaseField>> {
        self.0.get_assertions()
    }

    fn get_periodic_column_values(&self) -> Vec<Vec<Self::BaseField>> {
        vec![(0..16u32).map(BaseElement::from).collect()]
    }

    fn context(&self) -> &AirContext<Self::BaseField> {
        self.0.context()
    }
}

// PROVER
// ================================================================================================

struct PowProver<const D: u32, const X: usize> {
    options: ProofOptions,
}

impl<const D: u32, const X: usize> Prover for PowProver<D, X> {
    type BaseField = BaseElement;
    type Air = PowAir<D, X>;
    type Trace = TraceTable<BaseElement>;
    type HashFn = Hasher;
    type RandomCoin = Coin;
    type TraceLde<E: FieldElement<BaseField = BaseElement>> = DefaultTraceLde<E, Hasher>;
    type ConstraintEvaluator<'a, E: FieldElement<BaseField = BaseElement>> =
        DefaultConstraintEvaluator<'a, PowAir<D, X>, E>;

    fn get_pub_inputs(&self, trace: &Self::Trace) -> PublicInputs {
        PublicInputs {
            start: trace.get(0, 0),
            result: trace.get(0, trace.length() - 1),
        }
    }

    fn options(&self) -> &ProofOptions {
        &self.options
    }

    fn new_trace_lde<E: FieldElement<BaseField = BaseElement>>(
        &self,
        trace_info: &TraceInfo,
        main_trace: &ColMatrix<BaseElement>,
        domain: &StarkDomain<BaseElement>,
    ) -> (Self::TraceLde<E>, TracePolyTable<E>) {
        DefaultTraceLde::new(trace_info, main_trace, domain)
    }

    fn new_evaluator<'a, E: FieldElement<BaseField = BaseElement>>(
        &self,
        air: &'a PowAir<D, X>,
        aux_rand_elements: Option<AuxRandElements<E>>,
        composition_coefficients: ConstraintCompositionCoefficients<E>,
    ) -> Self::ConstraintEvaluator<'a, E> {
        DefaultConstraintEvaluator::new(air, aux_rand_elements, composition_coefficients)
    }
}

// HELPERS
// ================================================================================================

/// Builds an honest proof (blowup factor 8, 32 queries) and returns it with its public inputs.
fn honest_proof<const D: u32, const X: usize>() -> (Proof, PublicInputs) {
    honest_proof_of_length::<D, X>(TRACE_LENGTH)
}

fn honest_proof_of_length<const D: u32, const X: usize>(
    trace_length: usize,
) -> (Proof, PublicInputs) {
    let mut trace = TraceTable::new(1, trace_length);
    trace.fill(
        |state| state[0] = BaseElement::new(3),
        |_, state| state[0] = state[0].exp(D.into()) + BaseElement::new(42),
    );
    let options = ProofOptions::new(32, 8, 0, FieldExtension::None, 4, 7);
    let prover = PowProver::<D, X> { options };
    let pub_inputs = prover.get_pub_inputs(&trace);
    let proof = prover.prove(trace).expect("honest proof generation failed");
    (proof, pub_inputs)
}

/// Offset of the serialized `ProofOptions` within the serialized proof: the proof starts with the
/// context, which is the trace info, the length-prefixed field modulus and then the options
/// (number of queries, blowup factor, grinding factor, field extension, FRI folding factor, FRI
/// remainder degree; one byte each).
fn options_offset(proof: &Proof) -> usize {
    proof.trace_info().to_bytes().len() + 1 + proof.context.field_modulus_bytes().len()
}

/// Parses `bytes` and verifies the result; `Ok(result)` if nothing panicked, where a proof which
/// cannot even be parsed counts as rejected.
fn parse_and_verify<const D: u32, const X: usize>(
    bytes: &[u8],
    pub_inputs: PublicInputs,
) -> std::thread::Result<Result<(), String>> {
    catch_unwind(AssertUnwindSafe(|| {
        let proof = Proof::from_bytes(bytes).map_err(|err| format!("parse error: {err}"))?;
        verify::<PowAir<D, X>, Hasher, Coin>(
            proof,
            pub_inputs,
            &AcceptableOptions::MinConjecturedSecurity(MIN_SECURITY),
        )
        .map_err(|err: VerifierError| format!("verifier error: {err}"))
    }))
}

fn panic_message(payload: &(dyn std::any::Any + Send)) -> String {
    payload
        .downcast_ref::<String>()
        .cloned()
        .or_else(|| payload.downcast_ref::<&str>().map(|s| s.to_string()))
        .unwrap_or_else(|| "<non-string panic payload>".to_string())
}

fn assert_rejected(what: &str, outcome: std::thread::Result<Result<(), String>>) {
    match outcome {
        Ok(Err(err)) => println!("{what}: rejected with `{err}`"),
        Ok(Ok(())) => panic!("{what}: the edited proof was ACCEPTED"),
        Err(payload) => {
            panic!("{what}: verify() PANICKED with `{}`", panic_message(payload.as_ref()))
        },
    }
}

// TESTS
// ================================================================================================

/// Control: the honest proofs survive a round trip through bytes and verify.
#[test]
fn honest_proof_is_accepted() {
    let (proof, pub_inputs) = honest_proof::<5, 1>();
    let outcome = parse_and_verify::<5, 1>(&proof.to_bytes(), pub_inputs);
    assert_eq!(outcome.expect("verify() panicked on an honest proof"), Ok(()));

    let (proof, pub_inputs) = honest_proof::<4, 6>();
    let outcome = parse_and_verify::<4, 6>(&proof.to_bytes(), pub_inputs);
    assert_eq!(outcome.expect("verify() panicked on an honest proof"), Ok(()));
}

/// The proof claims blowup factor 2 (with 100 queries — fewer than the LDE domain has points — so that the claimed security level is still
/// acceptable), but the AIR has a constraint of degree 5 and needs a blowup factor of at least 4.
#[test]
fn blowup_factor_too_small_for_the_air_is_rejected() {
    let (proof, pub_inputs) = honest_proof::<5, 1>();
    let at = options_offset(&proof);
    let mut bytes = proof.to_bytes();
    assert_eq!((bytes[at], bytes[at + 1]), (32, 8), "unexpected layout of the proof context");
    bytes[at] = 100; // number of queries
    bytes[at + 1] = 2; // blowup factor

    // the edited context is one the policy accepts: only the AIR can tell it is wrong
    let edited = Proof::from_bytes(&bytes).expect("the edited proof must still parse");
    assert_eq!(edited.options().blowup_factor(), 2);
    assert!(edited.security_level::<Hasher>(true) >= MIN_SECURITY);

    assert_rejected("blowup factor 2", parse_and_verify::<5, 1>(&bytes, pub_inputs));
}

/// Same edit, but the verifier pins the exact set of options it accepts. This is the documented
/// way to keep proof-chosen parameters away from the AIR; it has to keep working.
#[test]
fn blowup_factor_outside_of_the_option_set_is_rejected() {
    let (proof, pub_inputs) = honest_proof::<5, 1>();
    let accepted = AcceptableOptions::OptionSet(vec![proof.options().clone()]);
    let at = options_offset(&proof);
    let mut bytes = proof.to_bytes();
    bytes[at] = 255;
    bytes[at + 1] = 2;
    let edited = Proof::from_bytes(&bytes).unwrap();
    let outcome = catch_unwind(AssertUnwindSafe(|| {
        verify::<QuinticAir, Hasher, Coin>(edited, pub_inputs, &accepted)
            .map_err(|err| format!("verifier error: {err}"))
    }));
    assert_rejected("blowup factor 2 with an option set", outcome);
}

/// The proof claims that the trace has an auxiliary segment (and carries a second set of trace
/// queries so that it still parses), but the AIR describes a single-segment trace.
#[test]
fn auxiliary_segment_unknown_to_the_air_is_rejected() {
    let (proof, pub_inputs) = honest_proof::<5, 1>();
    let mut bytes = proof.to_bytes();
    assert_eq!((bytes[0], bytes[1], bytes[2]), (1, 0, 0), "unexpected layout of the trace info");
    bytes[1] = 1; // width of the auxiliary segment
    bytes[2] = 1; // number of random elements for the auxiliary segment

    // trace queries follow the context, the number of unique queries and the commitments
    let queries_at = proof.context.to_bytes().len() + 1 + proof.commitments.to_bytes().len();
    let main_queries = proof.trace_queries[0].to_bytes();
    assert_eq!(&bytes[queries_at..queries_at + main_queries.len()], &main_queries[..]);
    let tail = bytes.split_off(queries_at);
    bytes.extend_from_slice(&main_queries);
    bytes.extend_from_slice(&tail);

    let edited = Proof::from_bytes(&bytes).expect("the edited proof must still parse");
    assert!(edited.trace_info().is_multi_segment());
    assert_eq!(edited.trace_queries.len(), 2);

    assert_rejected("auxiliary segment", parse_and_verify::<5, 1>(&bytes, pub_inputs));
}

/// The proof claims a trace of 8 rows, but the AIR exempts the last 6 rows from its transition
/// constraint, which a trace of 8 rows does not allow.
#[test]
fn trace_too_short_for_the_transition_exemptions_is_rejected() {
    let (proof, pub_inputs) = honest_proof::<4, 6>();
    let mut bytes = proof.to_bytes();
    assert_eq!(bytes[3] as u32, TRACE_LENGTH.ilog2(), "unexpected layout of the trace info");
    bytes[3] = 3; // log2 of the trace length

    let edited = Proof::from_bytes(&bytes).expect("the edited proof must still parse");
    assert_eq!(edited.trace_info().length(), 8);
    assert!(edited.security_level::<Hasher>(true) >= MIN_SECURITY);

    assert_rejected("trace length 8", parse_and_verify::<4, 6>(&bytes, pub_inputs));
}

/// The proof is an honest proof of the computation for a trace of 8 rows, but the AIR it is verified
/// against uses a periodic column of 16 values, which does not fit into 8 rows. (The honest proof
/// for 64 rows verifies against this AIR.)
#[test]
fn trace_too_short_for_the_periodic_columns_is_rejected() {
    let accepted = AcceptableOptions::MinConjecturedSecurity(MIN_SECURITY);

    let (proof, pub_inputs) = honest_proof::<5, 1>();
    let proof = Proof::from_bytes(&proof.to_bytes()).unwrap();
    assert_eq!(verify::<PeriodicAir, Hasher, Coin>(proof, pub_inputs, &accepted), Ok(()));

    let (proof, pub_inputs) = honest_proof_of_length::<5, 1>(8);
    let proof = Proof::from_bytes(&proof.to_bytes()).unwrap();
    let outcome = catch_unwind(AssertUnwindSafe(|| {
        verify::<PeriodicAir, Hasher, Coin>(proof, pub_inputs, &accepted)
            .map_err(|err| format!("verifier error: {err}"))
    }));
    assert_rejected("trace length 8 with a periodic column of 16 values", outcome);
}

/// The repair must not make the prover accept a configuration which does not fit its AIR.
#[test]
#[should_panic(expected = "blowup factor too small; expected at least 4, but was 2")]
fn prover_still_refuses_a_blowup_factor_too_small_for_the_air() {
    let mut trace = TraceTable::new(1, TRACE_LENGTH);
    trace.fill(
        |state| state[0] = BaseElement::new(3),
        |_, state| state[0] = state[0].exp(5u32.into()) + BaseElement::new(42),
    );
    let options = ProofOptions::new(255, 2, 0, FieldExtension::None, 4, 7);
    let _ = PowProver::<5, 1> { options }.prove(trace);
}
