// PoC: `AirContext` constructor assertions reachable from `winterfell::verify` through the trace
// info / proof options carried in the PROOF bytes.
//
// `verify` builds the AIR with `A::new(proof.trace_info().clone(), pub_inputs,
// proof.options().clone())`, i.e. from values chosen by whoever produced the proof bytes. The AIR
// constructors below are ordinary ones: fixed constraint degrees, a fixed number of transition
// exemptions, a fixed Lagrange kernel column index. Every test
//
//   1. builds an HONEST proof and checks that it verifies (control),
//   2. edits the claimed trace info in the serialized proof (byte surgery on `Proof::to_bytes()`),
//      re-parses the bytes with `Proof::from_bytes` (which must succeed), and
//   3. calls `verify` under `catch_unwind`, asserting the CORRECT behaviour: `verify` returns an
//      `Err` and nothing panics.
//
// A test therefore FAILS exactly where an assertion of `AirContext` is reachable through proof
// bytes.
//
// Copy to `winterfell/tests/air_context_asserts.rs` and run
//   CARGO_TARGET_DIR=/tmp/poc_g/target cargo test --offline -p winterfell --test air_context_asserts
//   CARGO_TARGET_DIR=/tmp/poc_g/target cargo test --offline -p winterfell --test air_context_asserts --release

use std::panic::{catch_unwind, AssertUnwindSafe};

use air::LagrangeKernelRandElements;
use winterfell::{
    crypto::{hashers::Blake3_256, DefaultRandomCoin, ElementHasher, RandomCoin},
    math::{fields::f64::BaseElement, ExtensionOf, FieldElement},
    matrix::ColMatrix,
    verify, AcceptableOptions, Air, AirContext, Assertion, AuxRandElements,
    ConstraintCompositionCoefficients, DefaultConstraintEvaluator, DefaultTraceLde,
    EvaluationFrame, FieldExtension, GkrVerifier, Proof, ProofOptions, Prover, ProverGkrProof,
    StarkDomain, Trace, TraceInfo, TracePolyTable, TraceTable, TransitionConstraintDegree,
    VerifierError,
};

type Blake3 = Blake3_256<BaseElement>;
type Coin = DefaultRandomCoin<Blake3>;

/// The verifier's policy: at least 80 bits of conjectured security. All the tampered proofs below
/// keep the honest proof options, and shrinking the claimed trace length or the claimed trace
/// width never lowers the security estimate, so they all pass this check.
const ACCEPTABLE: AcceptableOptions = AcceptableOptions::MinConjecturedSecurity(80);

fn proof_options() -> ProofOptions {
    // 28 queries, blowup 8, quadratic extension of the 64-bit field: 83 bits (conjectured)
    ProofOptions::new(28, 8, 0, FieldExtension::Quadratic, 4, 7)
}

// BYTE SURGERY
// ================================================================================================
//
// Layout of `Proof::to_bytes()`:
//   context:
//     [0] main segment width           (u8)
//     [1] auxiliary segment width      (u8)
//     [2] number of aux random values  (u8)
//     [3] log2(trace length)           (u8)
//     [4..6] number of meta bytes      (u16, LE), followed by the meta bytes
//     field modulus: length (u8) + bytes
//     proof options: 6 bytes
//   number of unique queries (u8)
//   commitments: length (u16, LE) + bytes
//   one `Queries` per trace segment: values (u32 length + bytes), paths (u32 length + bytes)
//   constraint `Queries`, OOD frame, FRI proof, PoW nonce, GKR proof

const AUX_WIDTH_OFFSET: usize = 1;
const AUX_RANDS_OFFSET: usize = 2;
const LOG_TRACE_LENGTH_OFFSET: usize = 3;

fn read_u16(bytes: &[u8], pos: usize) -> usize {
    u16::from_le_bytes([bytes[pos], bytes[pos + 1]]) as usize
}

fn read_u32(bytes: &[u8], pos: usize) -> usize {
    u32::from_le_bytes([bytes[pos], bytes[pos + 1], bytes[pos + 2], bytes[pos + 3]]) as usize
}

/// Returns the number of bytes taken by the serialized proof context.
fn context_len(bytes: &[u8]) -> usize {
    let num_meta_bytes = read_u16(bytes, 4);
    let modulus_pos = 6 + num_meta_bytes;
    let num_modulus_bytes = bytes[modulus_pos] as usize;
    modulus_pos + 1 + num_modulus_bytes + 6
}

/// Returns the position just behind the `Queries` struct starting at `pos`.
fn skip_queries(bytes: &[u8], pos: usize) -> usize {
    let pos = pos + 4 + read_u32(bytes, pos); // values
    pos + 4 + read_u32(bytes, pos) // paths
}

/// Returns the byte range of the queries of the auxiliary trace segment in a proof for a
/// two-segment trace.
fn aux_segment_queries_range(bytes: &[u8]) -> core::ops::Range<usize> {
    let pos = context_len(bytes) + 1; // context, number of unique queries
    let pos = pos + 2 + read_u16(bytes, pos); // commitments
    let start = skip_queries(bytes, pos); // main segment queries
    start..skip_queries(bytes, start)
}

/// Sets the claimed trace length to 2^`log2_len`.
fn claim_trace_length(proof: &Proof, log2_len: u8) -> Proof {
    let mut bytes = proof.to_bytes();
    bytes[LOG_TRACE_LENGTH_OFFSET] = log2_len;
    let tampered = Proof::from_bytes(&bytes).expect("tampered proof must stay parseable");
    assert_eq!(tampered.trace_info().length(), 1 << log2_len);
    assert_eq!(tampered.to_bytes(), bytes);
    tampered
}

/// Sets the claimed width of the auxiliary trace segment (which stays non-empty).
fn claim_aux_width(proof: &Proof, aux_width: u8) -> Proof {
    assert!(aux_width > 0);
    let mut bytes = proof.to_bytes();
    assert!(bytes[AUX_WIDTH_OFFSET] > 0, "the honest proof must be for a two-segment trace");
    bytes[AUX_WIDTH_OFFSET] = aux_width;
    let tampered = Proof::from_bytes(&bytes).expect("tampered proof must stay parseable");
    assert_eq!(tampered.trace_info().get_aux_segment_width(), aux_width as usize);
    assert!(tampered.trace_info().is_multi_segment());
    assert_eq!(tampered.to_bytes(), bytes);
    tampered
}

/// Turns the claimed trace info into a single-segment one: the auxiliary segment width and the
/// number of its random elements become zero, and the queries of the auxiliary segment are cut out
/// so that the remainder of the proof still parses (and round-trips).
fn claim_single_segment(proof: &Proof) -> Proof {
    let mut bytes = proof.to_bytes();
    assert!(bytes[AUX_WIDTH_OFFSET] > 0, "the honest proof must be for a two-segment trace");
    let aux_queries = aux_segment_queries_range(&bytes);
    bytes.drain(aux_queries);
    bytes[AUX_WIDTH_OFFSET] = 0;
    bytes[AUX_RANDS_OFFSET] = 0;
    let tampered = Proof::from_bytes(&bytes).expect("tampered proof must stay parseable");
    assert!(!tampered.trace_info().is_multi_segment());
    assert_eq!(tampered.trace_info().get_aux_segment_width(), 0);
    assert_eq!(tampered.trace_queries.len(), 1);
    assert_eq!(tampered.to_bytes(), bytes);
    tampered
}

// VERIFICATION HARNESS
// ================================================================================================

/// What `verify` did with a proof.
#[derive(Debug)]
enum Outcome {
    Accepted,
    Rejected(VerifierError),
    Panicked(String),
}

fn run_verify<A: Air<BaseField = BaseElement, PublicInputs = ()>>(proof: Proof) -> Outcome {
    match catch_unwind(AssertUnwindSafe(|| verify::<A, Blake3, Coin>(proof, (), &ACCEPTABLE))) {
        Ok(Ok(())) => Outcome::Accepted,
        Ok(Err(err)) => Outcome::Rejected(err),
        Err(payload) => {
            let message = payload
                .downcast_ref::<String>()
                .cloned()
                .or_else(|| payload.downcast_ref::<&str>().map(|s| s.to_string()))
                .unwrap_or_else(|| "<non-string panic payload>".to_string());
            Outcome::Panicked(message)
        },
    }
}

/// The correct behaviour for a tampered proof: an error, no panic, no acceptance.
fn assert_rejected_without_panic(what: &str, outcome: Outcome) {
    match outcome {
        Outcome::Rejected(err) => println!("{what}: rejected with `{err}`"),
        Outcome::Accepted => panic!("{what}: the tampered proof was ACCEPTED"),
        Outcome::Panicked(message) => {
            panic!("{what}: verify() PANICKED instead of returning an error: {message}")
        },
    }
}

// ================================================================================================
// (1) PERIODIC AIR: one periodic column of cycle 8, three transition exemptions
// ================================================================================================
//
// Transition constraint: next = current + k * current^2, where k is a periodic column with a cycle
// of 8 rows; its degree is `with_cycles(2, [8])`. The last three rows of the trace are exempt
// from it (`set_num_transition_exemptions(3)`).
//
// `set_num_transition_exemptions(n)` checks
//   (a) n <= trace_len / 2 + 1
//   (b) n <= max_exemptions = (ce_domain_size - 1) + trace_len - eval_degree     (per constraint)
// For this degree descriptor ce_blowup = 2 and eval_degree = 2 * (len - 1) + (len / 8) * 7, thus
// max_exemptions = len / 8 + 1:
//   len = 64 (honest): (a) 3 <= 33, (b) 3 <= 9
//   len = 16:          (a) 3 <= 9,  (b) 3 <= 3
//   len =  8:          (a) 3 <= 5,  (b) 3 <= 2   <-- (b) fails although (a) holds

const PERIODIC_CYCLE: [u64; 8] = [1, 2, 3, 4, 5, 6, 7, 8];
const PERIODIC_NUM_EXEMPTIONS: usize = 3;
const PERIODIC_SEED: u64 = 3;

struct PeriodicAir {
    context: AirContext<BaseElement>,
}

impl Air for PeriodicAir {
    type BaseField = BaseElement;
    type PublicInputs = ();
    type GkrProof = ();
    type GkrVerifier = ();

    fn new(trace_info: TraceInfo, _pub_inputs: (), options: ProofOptions) -> Self {
        let degrees = vec![TransitionConstraintDegree::with_cycles(2, vec![PERIODIC_CYCLE.len()])];
        Self {
            context: AirContext::new(trace_info, degrees, 1, options)
                .set_num_transition_exemptions(PERIODIC_NUM_EXEMPTIONS),
        }
    }

    fn context(&self) -> &AirContext<Self::BaseField> {
        &self.context
    }

    fn evaluate_transition<E: FieldElement<BaseField = Self::BaseField>>(
        &self,
        frame: &EvaluationFrame<E>,
        periodic_values: &[E],
        result: &mut [E],
    ) {
        let current = frame.current()[0];
        let next = frame.next()[0];
        result[0] = next - current - periodic_values[0] * current * current;
    }

    fn get_assertions(&self) -> Vec<Assertion<Self::BaseField>> {
        vec![Assertion::single(0, 0, BaseElement::new(PERIODIC_SEED))]
    }

    fn get_periodic_column_values(&self) -> Vec<Vec<Self::BaseField>> {
        vec![PERIODIC_CYCLE.iter().map(|&v| BaseElement::new(v)).collect()]
    }
}

struct PeriodicProver {
    options: ProofOptions,
}

impl PeriodicProver {
    fn build_trace(length: usize) -> TraceTable<BaseElement> {
        let mut column = Vec::with_capacity(length);
        let mut state = BaseElement::new(PERIODIC_SEED);
        column.push(state);
        for step in 0..length - PERIODIC_NUM_EXEMPTIONS {
            let k = BaseElement::new(PERIODIC_CYCLE[step % PERIODIC_CYCLE.len()]);
            state = state + k * state * state;
            column.push(state);
        }
        // the remaining rows are exempt from the transition constraint; fill them with garbage
        while column.len() < length {
            column.push(BaseElement::new(1000 + column.len() as u64));
        }
        TraceTable::init(vec![column])
    }
}

impl Prover for PeriodicProver {
    type BaseField = BaseElement;
    type Air = PeriodicAir;
    type Trace = TraceTable<BaseElement>;
    type HashFn = Blake3;
    type RandomCoin = Coin;
    type TraceLde<E: FieldElement<BaseField = BaseElement>> = DefaultTraceLde<E, Blake3>;
    type ConstraintEvaluator<'a, E: FieldElement<BaseField = BaseElement>> =
        DefaultConstraintEvaluator<'a, PeriodicAir, E>;

    fn get_pub_inputs(&self, _trace: &Self::Trace) {}

    fn options(&self) -> &ProofOptions {
        &self.options
    }

    fn new_trace_lde<E: FieldElement<BaseField = BaseElement>>(
        &self,
        trace_info: &TraceInfo,
        main_trace: &ColMatrix<BaseElement>,
        domain: &StarkDomain<BaseElement>,
    ) -> (Self::TraceLde<E>, TracePolyTable<E>) {
        DefaultTraceLde::new(trace_info, main_trace, domain)
    }

    fn new_evaluator<'a, E: FieldElement<BaseField = BaseElement>>(
        &self,
        air: &'a PeriodicAir,
        aux_rand_elements: Option<AuxRandElements<E>>,
        composition_coefficients: ConstraintCompositionCoefficients<E>,
    ) -> Self::ConstraintEvaluator<'a, E> {
        DefaultConstraintEvaluator::new(air, aux_rand_elements, composition_coefficients)
    }
}

fn periodic_honest_proof() -> Proof {
    let prover = PeriodicProver { options: proof_options() };
    let proof = prover.prove(PeriodicProver::build_trace(64)).unwrap();
    // round-trip through bytes, as a verifier receiving the proof would
    Proof::from_bytes(&proof.to_bytes()).unwrap()
}

#[test]
fn s1_control_honest_periodic_proof_verifies() {
    let proof = periodic_honest_proof();
    assert!(matches!(run_verify::<PeriodicAir>(proof), Outcome::Accepted));
}

/// Claimed trace length 16: both checks of `set_num_transition_exemptions` hold (3 <= 9, 3 <= 3),
/// the AIR is built and the proof is rejected by the protocol checks. Shows that shrinking the
/// trace length is not by itself what makes `verify` panic.
#[test]
fn s1_control_trace_length_16_is_rejected() {
    let tampered = claim_trace_length(&periodic_honest_proof(), 4);
    assert_rejected_without_panic(
        "(1) control, claimed trace length 16",
        run_verify::<PeriodicAir>(tampered),
    );
}

/// SUSPICION (1): claimed trace length 8. The first check holds (3 <= 8 / 2 + 1 = 5), the second
/// one (`n <= max_exemptions` = 8 / 8 + 1 = 2) does not.
#[test]
fn s1_max_exemptions_check_is_not_reachable_from_proof_bytes() {
    let tampered = claim_trace_length(&periodic_honest_proof(), 3);
    assert_rejected_without_panic(
        "(1) claimed trace length 8, 3 exemptions, degree with_cycles(2, [8])",
        run_verify::<PeriodicAir>(tampered),
    );
}

// ================================================================================================
// (2), (3) LAGRANGE AIR: the AIR of `winterfell/src/tests.rs` (one main column, two auxiliary
// columns the last of which is the Lagrange kernel column)
// ================================================================================================
//
// `MODE = FIXED` is the AIR of `winterfell/src/tests.rs` verbatim: fixed auxiliary constraint
// degrees, one auxiliary assertion, Lagrange kernel column index `Some(1)`.
//
// `MODE = OPTIONAL_AUX` differs in one respect: the auxiliary constraint degrees and the number
// of auxiliary assertions are taken to be empty / zero when the trace info has no auxiliary
// segment (an AIR whose auxiliary segment is optional), while the Lagrange kernel column index is
// still the fixed `Some(1)`. It is only needed to get past the checks of suspicion (3) and reach
// `get_aux_segment_width() - 1` with an auxiliary width of zero.
//
// `MODE = OPTIONAL_AUX_DEGREES` drops only the auxiliary constraint degrees for a single-segment
// trace info and keeps the auxiliary assertion count; it is only needed to reach the SECOND check
// of suspicion (3), which the first one shadows for the `FIXED` AIR.
//
// For a two-segment trace info the three AIRs are identical, so the same honest proof serves all.

const AUX_TRACE_WIDTH: usize = 2;
const LAGRANGE_COLUMN_IDX: usize = AUX_TRACE_WIDTH - 1;

#[derive(Debug, Clone, Default)]
struct DummyGkrVerifier;

impl GkrVerifier for DummyGkrVerifier {
    // `GkrProof` is log(trace_len) for this dummy example, so that the verifier knows how many aux
    // random variables to generate
    type GkrProof = usize;
    type Error = VerifierError;

    fn verify<E, Hasher>(
        &self,
        gkr_proof: usize,
        public_coin: &mut impl RandomCoin<BaseField = E::BaseField, Hasher = Hasher>,
    ) -> Result<LagrangeKernelRandElements<E>, Self::Error>
    where
        E: FieldElement,
        Hasher: ElementHasher<BaseField = E::BaseField>,
    {
        // (bounded so that a bogus GKR proof cannot make this dummy verifier spin)
        let log_trace_len = gkr_proof.min(64);
        let mut rand_elements = Vec::with_capacity(log_trace_len);
        for _ in 0..log_trace_len {
            rand_elements.push(public_coin.draw().unwrap());
        }
        Ok(LagrangeKernelRandElements::new(rand_elements))
    }
}

/// Fixed auxiliary constraint degrees and auxiliary assertion count (`winterfell/src/tests.rs`).
const FIXED: u8 = 0;
/// Auxiliary constraint degrees and assertion count follow `trace_info.is_multi_segment()`.
const OPTIONAL_AUX: u8 = 1;
/// Auxiliary constraint degrees follow `trace_info.is_multi_segment()`, the auxiliary assertion
/// count is fixed.
const OPTIONAL_AUX_DEGREES: u8 = 2;

struct LagrangeAir<const MODE: u8> {
    context: AirContext<BaseElement>,
}

impl<const MODE: u8> Air for LagrangeAir<MODE> {
    type BaseField = BaseElement;
    type GkrProof = usize;
    type GkrVerifier = DummyGkrVerifier;
    type PublicInputs = ();

    fn new(trace_info: TraceInfo, _pub_inputs: (), options: ProofOptions) -> Self {
        let has_aux_segment = MODE == FIXED || trace_info.is_multi_segment();
        let aux_degrees = if has_aux_segment {
            vec![TransitionConstraintDegree::new(1)]
        } else {
            vec![]
        };
        let num_aux_assertions = if has_aux_segment || MODE == OPTIONAL_AUX_DEGREES {
            1
        } else {
            0
        };
        Self {
            context: AirContext::new_multi_segment(
                trace_info,
                vec![TransitionConstraintDegree::new(1)],
                aux_degrees,
                1,
                num_aux_assertions,
                Some(LAGRANGE_COLUMN_IDX),
                options,
            ),
        }
    }

    fn context(&self) -> &AirContext<Self::BaseField> {
        &self.context
    }

    fn evaluate_transition<E: FieldElement<BaseField = Self::BaseField>>(
        &self,
        frame: &EvaluationFrame<E>,
        _periodic_values: &[E],
        result: &mut [E],
    ) {
        // increments by 1
        result[0] = frame.next()[0] - frame.current()[0] - E::ONE;
    }

    fn get_assertions(&self) -> Vec<Assertion<Self::BaseField>> {
        vec![Assertion::single(0, 0, BaseElement::ZERO)]
    }

    fn evaluate_aux_transition<F, E>(
        &self,
        _main_frame: &EvaluationFrame<F>,
        _aux_frame: &EvaluationFrame<E>,
        _periodic_values: &[F],
        _aux_rand_elements: &[E],
        _result: &mut [E],
    ) where
        F: FieldElement<BaseField = Self::BaseField>,
        E: FieldElement<BaseField = Self::BaseField> + ExtensionOf<F>,
    {
        // do nothing
    }

    fn get_aux_assertions<E: FieldElement<BaseField = Self::BaseField>>(
        &self,
        _aux_rand_elements: &[E],
    ) -> Vec<Assertion<E>> {
        vec![Assertion::single(0, 0, E::ZERO)]
    }

    fn get_auxiliary_proof_verifier<E: FieldElement<BaseField = Self::BaseField>>(
        &self,
    ) -> Self::GkrVerifier {
        DummyGkrVerifier
    }
}

#[derive(Clone, Debug)]
struct LagrangeTrace {
    // dummy main trace
    main_trace: ColMatrix<BaseElement>,
    info: TraceInfo,
}

impl LagrangeTrace {
    fn new(trace_len: usize) -> Self {
        let main_trace_col: Vec<BaseElement> =
            (0..trace_len).map(|idx| BaseElement::from(idx as u32)).collect();
        Self {
            main_trace: ColMatrix::new(vec![main_trace_col]),
            info: TraceInfo::new_multi_segment(1, AUX_TRACE_WIDTH, 0, trace_len, vec![]),
        }
    }
}

impl Trace for LagrangeTrace {
    type BaseField = BaseElement;

    fn info(&self) -> &TraceInfo {
        &self.info
    }

    fn main_segment(&self) -> &ColMatrix<Self::BaseField> {
        &self.main_trace
    }

    fn read_main_frame(&self, row_idx: usize, frame: &mut EvaluationFrame<Self::BaseField>) {
        let next_row_idx = row_idx + 1;
        assert_ne!(next_row_idx, self.main_trace.num_rows());
        self.main_trace.read_row_into(row_idx, frame.current_mut());
        self.main_trace.read_row_into(next_row_idx, frame.next_mut());
    }
}

struct LagrangeProver {
    options: ProofOptions,
}

impl Prover for LagrangeProver {
    type BaseField = BaseElement;
    type Air = LagrangeAir<FIXED>;
    type Trace = LagrangeTrace;
    type HashFn = Blake3;
    type RandomCoin = Coin;
    type TraceLde<E: FieldElement<BaseField = BaseElement>> = DefaultTraceLde<E, Blake3>;
    type ConstraintEvaluator<'a, E: FieldElement<BaseField = BaseElement>> =
        DefaultConstraintEvaluator<'a, LagrangeAir<FIXED>, E>;

    fn get_pub_inputs(&self, _trace: &Self::Trace) {}

    fn options(&self) -> &ProofOptions {
        &self.options
    }

    fn new_trace_lde<E: FieldElement<BaseField = BaseElement>>(
        &self,
        trace_info: &TraceInfo,
        main_trace: &ColMatrix<BaseElement>,
        domain: &StarkDomain<BaseElement>,
    ) -> (Self::TraceLde<E>, TracePolyTable<E>) {
        DefaultTraceLde::new(trace_info, main_trace, domain)
    }

    fn new_evaluator<'a, E: FieldElement<BaseField = BaseElement>>(
        &self,
        air: &'a Self::Air,
        aux_rand_elements: Option<AuxRandElements<E>>,
        composition_coefficients: ConstraintCompositionCoefficients<E>,
    ) -> Self::ConstraintEvaluator<'a, E> {
        DefaultConstraintEvaluator::new(air, aux_rand_elements, composition_coefficients)
    }

    fn generate_gkr_proof<E>(
        &self,
        main_trace: &Self::Trace,
        public_coin: &mut Self::RandomCoin,
    ) -> (ProverGkrProof<Self>, LagrangeKernelRandElements<E>)
    where
        E: FieldElement<BaseField = Self::BaseField>,
    {
        let log_trace_len = main_trace.main_segment().num_rows().ilog2() as usize;
        let mut rand_elements: Vec<E> = Vec::with_capacity(log_trace_len);
        for _ in 0..log_trace_len {
            rand_elements.push(public_coin.draw().unwrap());
        }
        (log_trace_len, LagrangeKernelRandElements::new(rand_elements))
    }

    fn build_aux_trace<E>(
        &self,
        main_trace: &Self::Trace,
        aux_rand_elements: &AuxRandElements<E>,
    ) -> ColMatrix<E>
    where
        E: FieldElement<BaseField = Self::BaseField>,
    {
        let main_trace = main_trace.main_segment();
        let r = aux_rand_elements
            .lagrange()
            .expect("expected lagrange random elements to be present.");

        let mut columns = Vec::new();

        // first all other auxiliary columns
        let rand_summed = r.iter().fold(E::ZERO, |acc, &r| acc + r);
        for _ in 1..AUX_TRACE_WIDTH {
            let column = main_trace
                .get_column(0)
                .iter()
                .map(|row_val| rand_summed.mul_base(*row_val))
                .collect();
            columns.push(column);
        }

        // then the Lagrange kernel column
        let mut lagrange_col = Vec::with_capacity(main_trace.num_rows());
        for row_idx in 0..main_trace.num_rows() {
            let mut row_value = E::ONE;
            for (bit_idx, &r_i) in r.iter().enumerate() {
                if row_idx & (1 << bit_idx) == 0 {
                    row_value *= E::ONE - r_i;
                } else {
                    row_value *= r_i;
                }
            }
            lagrange_col.push(row_value);
        }
        columns.push(lagrange_col);

        ColMatrix::new(columns)
    }
}

fn lagrange_honest_proof() -> Proof {
    let prover = LagrangeProver { options: proof_options() };
    let proof = prover.prove(LagrangeTrace::new(64)).unwrap();
    Proof::from_bytes(&proof.to_bytes()).unwrap()
}

#[test]
fn s2_s3_control_honest_lagrange_proof_verifies() {
    assert!(matches!(
        run_verify::<LagrangeAir<FIXED>>(lagrange_honest_proof()),
        Outcome::Accepted
    ));
    assert!(matches!(
        run_verify::<LagrangeAir<OPTIONAL_AUX>>(lagrange_honest_proof()),
        Outcome::Accepted
    ));
    assert!(matches!(
        run_verify::<LagrangeAir<OPTIONAL_AUX_DEGREES>>(lagrange_honest_proof()),
        Outcome::Accepted
    ));
}

/// SUSPICION (2): the claimed auxiliary segment width is raised from 2 to 3; the AIR's Lagrange
/// kernel column index (1) is no longer `get_aux_segment_width() - 1`.
#[test]
fn s2_lagrange_column_check_is_not_reachable_from_proof_bytes_aux_width_3() {
    let tampered = claim_aux_width(&lagrange_honest_proof(), 3);
    assert_rejected_without_panic(
        "(2) claimed auxiliary width 3, Lagrange kernel column index 1",
        run_verify::<LagrangeAir<FIXED>>(tampered),
    );
}

/// SUSPICION (2), the other direction: the claimed auxiliary segment width is lowered from 2 to 1.
#[test]
fn s2_lagrange_column_check_is_not_reachable_from_proof_bytes_aux_width_1() {
    let tampered = claim_aux_width(&lagrange_honest_proof(), 1);
    assert_rejected_without_panic(
        "(2) claimed auxiliary width 1, Lagrange kernel column index 1",
        run_verify::<LagrangeAir<FIXED>>(tampered),
    );
}

/// SUSPICION (2), underflow: claimed auxiliary width 0. The checks of suspicion (3) come first in
/// `new_multi_segment`, so this is only reachable for an AIR which passes no auxiliary constraints
/// / assertions when the trace info is single-segment (`MODE = OPTIONAL_AUX`).
#[test]
fn s2_lagrange_column_check_does_not_underflow_for_aux_width_0() {
    let tampered = claim_single_segment(&lagrange_honest_proof());
    assert_rejected_without_panic(
        "(2) claimed auxiliary width 0, Lagrange kernel column index 1, optional aux segment",
        run_verify::<LagrangeAir<OPTIONAL_AUX>>(tampered),
    );
}

/// SUSPICION (3): the AIR of `winterfell/src/tests.rs` (fixed auxiliary constraint degrees and
/// auxiliary assertion count) is handed a single-segment trace info.
#[test]
fn s3_aux_constraints_check_is_not_reachable_from_proof_bytes() {
    let tampered = claim_single_segment(&lagrange_honest_proof());
    assert_rejected_without_panic(
        "(3) claimed auxiliary width 0, AIR with auxiliary constraints",
        run_verify::<LagrangeAir<FIXED>>(tampered),
    );
}

/// SUSPICION (3), second check (`num_aux_assertions == 0`): reachable only for an AIR which drops
/// its auxiliary constraint degrees for a single-segment trace info but keeps a fixed auxiliary
/// assertion count.
#[test]
fn s3_aux_assertions_check_is_not_reachable_from_proof_bytes() {
    let tampered = claim_single_segment(&lagrange_honest_proof());
    assert_rejected_without_panic(
        "(3) claimed auxiliary width 0, AIR with a fixed auxiliary assertion count",
        run_verify::<LagrangeAir<OPTIONAL_AUX_DEGREES>>(tampered),
    );
}

// ================================================================================================
// (4) PLAIN AIR: an AIR written for a single-segment trace which builds its context with
// `AirContext::new_multi_segment` (no auxiliary constraint degrees, no auxiliary assertions, no
// Lagrange kernel column)
// ================================================================================================
//
// `new_multi_segment` is the general constructor (`AirContext::new` merely forwards to it), so an
// AIR may well call it directly with an empty auxiliary description. The hostile proof claims an
// auxiliary segment; `new_multi_segment` then takes the `trace_info.is_multi_segment()` branch and
// asserts `!aux_transition_constraint_degrees.is_empty()`.

struct PlainAir {
    context: AirContext<BaseElement>,
}

impl Air for PlainAir {
    type BaseField = BaseElement;
    type PublicInputs = ();
    type GkrProof = ();
    type GkrVerifier = ();

    fn new(trace_info: TraceInfo, _pub_inputs: (), options: ProofOptions) -> Self {
        Self {
            context: AirContext::new_multi_segment(
                trace_info,
                vec![TransitionConstraintDegree::new(1)],
                vec![],
                1,
                0,
                None,
                options,
            ),
        }
    }

    fn context(&self) -> &AirContext<Self::BaseField> {
        &self.context
    }

    fn evaluate_transition<E: FieldElement<BaseField = Self::BaseField>>(
        &self,
        frame: &EvaluationFrame<E>,
        _periodic_values: &[E],
        result: &mut [E],
    ) {
        // increments by 1
        result[0] = frame.next()[0] - frame.current()[0] - E::ONE;
    }

    fn get_assertions(&self) -> Vec<Assertion<Self::BaseField>> {
        vec![Assertion::single(0, 0, BaseElement::ZERO)]
    }
}

struct PlainProver {
    options: ProofOptions,
}

impl Prover for PlainProver {
    type BaseField = BaseElement;
    type Air = PlainAir;
    type Trace = TraceTable<BaseElement>;
    type HashFn = Blake3;
    type RandomCoin = Coin;
    type TraceLde<E: FieldElement<BaseField = BaseElement>> = DefaultTraceLde<E, Blake3>;
    type ConstraintEvaluator<'a, E: FieldElement<BaseField = BaseElement>> =
        DefaultConstraintEvaluator<'a, PlainAir, E>;

    fn get_pub_inputs(&self, _trace: &Self::Trace) {}

    fn options(&self) -> &ProofOptions {
        &self.options
    }

    fn new_trace_lde<E: FieldElement<BaseField = BaseElement>>(
        &self,
        trace_info: &TraceInfo,
        main_trace: &ColMatrix<BaseElement>,
        domain: &StarkDomain<BaseElement>,
    ) -> (Self::TraceLde<E>, TracePolyTable<E>) {
        DefaultTraceLde::new(trace_info, main_trace, domain)
    }

    fn new_evaluator<'a, E: FieldElement<BaseField = BaseElement>>(
        &self,
        air: &'a PlainAir,
        aux_rand_elements: Option<AuxRandElements<E>>,
        composition_coefficients: ConstraintCompositionCoefficients<E>,
    ) -> Self::ConstraintEvaluator<'a, E> {
        DefaultConstraintEvaluator::new(air, aux_rand_elements, composition_coefficients)
    }
}

fn plain_honest_proof() -> Proof {
    let prover = PlainProver { options: proof_options() };
    let column: Vec<BaseElement> = (0..64u32).map(BaseElement::from).collect();
    let proof = prover.prove(TraceTable::init(vec![column])).unwrap();
    Proof::from_bytes(&proof.to_bytes()).unwrap()
}

/// Makes a proof for a single-segment trace claim an auxiliary segment of the specified width
/// (needing `aux_rands` random elements); an (empty) `Queries` struct for the claimed auxiliary
/// segment is inserted behind the queries of the main segment so that the remainder of the proof
/// still parses (and round-trips).
fn claim_aux_segment(proof: &Proof, aux_width: u8, aux_rands: u8) -> Proof {
    assert!(aux_width > 0);
    let mut bytes = proof.to_bytes();
    assert_eq!(bytes[AUX_WIDTH_OFFSET], 0, "the honest proof must be for a single-segment trace");
    let pos = context_len(&bytes) + 1; // context, number of unique queries
    let pos = pos + 2 + read_u16(&bytes, pos); // commitments
    let pos = skip_queries(&bytes, pos); // main segment queries
    bytes.splice(pos..pos, [0u8; 8]); // empty values (u32 length 0), empty paths (u32 length 0)
    bytes[AUX_WIDTH_OFFSET] = aux_width;
    bytes[AUX_RANDS_OFFSET] = aux_rands;
    let tampered = Proof::from_bytes(&bytes).expect("tampered proof must stay parseable");
    assert!(tampered.trace_info().is_multi_segment());
    assert_eq!(tampered.trace_info().get_aux_segment_width(), aux_width as usize);
    assert_eq!(tampered.trace_queries.len(), 2);
    assert_eq!(tampered.to_bytes(), bytes);
    tampered
}

#[test]
fn s4_control_honest_plain_proof_verifies() {
    assert!(matches!(run_verify::<PlainAir>(plain_honest_proof()), Outcome::Accepted));
}

/// SUSPICION (4): a single-segment AIR built with `new_multi_segment` (empty auxiliary constraint
/// degrees) is handed a trace info claiming an auxiliary segment of width 1.
#[test]
fn s4_empty_aux_degrees_check_is_not_reachable_from_proof_bytes() {
    let tampered = claim_aux_segment(&plain_honest_proof(), 1, 1);
    assert_rejected_without_panic(
        "(4) claimed auxiliary width 1, single-segment AIR built with new_multi_segment",
        run_verify::<PlainAir>(tampered),
    );
}

// ================================================================================================
// (5) RAND AIR: one main column, two auxiliary columns (no Lagrange kernel column); auxiliary
// column i holds r_i * main, where r_i is the i-th auxiliary random element
// ================================================================================================
//
// The AIR always passes its auxiliary constraint degree (one constraint: the first auxiliary
// column grows by r_0 per row), and places one boundary assertion (value 0 in the first row) per
// auxiliary random element, i.e. `num_aux_assertions =
// trace_info.get_num_aux_segment_rand_elements()`. `TraceInfo::read_from` accepts a non-empty
// auxiliary segment with zero random elements, so the hostile proof only has to zero byte 2.

const RAND_AUX_WIDTH: usize = 2;

struct RandAir {
    context: AirContext<BaseElement>,
}

impl Air for RandAir {
    type BaseField = BaseElement;
    type PublicInputs = ();
    type GkrProof = ();
    type GkrVerifier = ();

    fn new(trace_info: TraceInfo, _pub_inputs: (), options: ProofOptions) -> Self {
        // one assertion per auxiliary random element
        let num_aux_assertions = trace_info.get_num_aux_segment_rand_elements();
        Self {
            context: AirContext::new_multi_segment(
                trace_info,
                vec![TransitionConstraintDegree::new(1)],
                vec![TransitionConstraintDegree::new(1)],
                1,
                num_aux_assertions,
                None,
                options,
            ),
        }
    }

    fn context(&self) -> &AirContext<Self::BaseField> {
        &self.context
    }

    fn evaluate_transition<E: FieldElement<BaseField = Self::BaseField>>(
        &self,
        frame: &EvaluationFrame<E>,
        _periodic_values: &[E],
        result: &mut [E],
    ) {
        // increments by 1
        result[0] = frame.next()[0] - frame.current()[0] - E::ONE;
    }

    fn get_assertions(&self) -> Vec<Assertion<Self::BaseField>> {
        vec![Assertion::single(0, 0, BaseElement::ZERO)]
    }

    fn evaluate_aux_transition<F, E>(
        &self,
        _main_frame: &EvaluationFrame<F>,
        aux_frame: &EvaluationFrame<E>,
        _periodic_values: &[F],
        aux_rand_elements: &[E],
        result: &mut [E],
    ) where
        F: FieldElement<BaseField = Self::BaseField>,
        E: FieldElement<BaseField = Self::BaseField> + ExtensionOf<F>,
    {
        // the first auxiliary column grows by r_0 per row
        result[0] = aux_frame.next()[0] - aux_frame.current()[0] - aux_rand_elements[0];
    }

    fn get_aux_assertions<E: FieldElement<BaseField = Self::BaseField>>(
        &self,
        aux_rand_elements: &[E],
    ) -> Vec<Assertion<E>> {
        (0..aux_rand_elements.len()).map(|i| Assertion::single(i, 0, E::ZERO)).collect()
    }
}

#[derive(Clone, Debug)]
struct RandTrace {
    main_trace: ColMatrix<BaseElement>,
    info: TraceInfo,
}

impl RandTrace {
    fn new(trace_len: usize) -> Self {
        let column: Vec<BaseElement> =
            (0..trace_len).map(|idx| BaseElement::from(idx as u32)).collect();
        Self {
            main_trace: ColMatrix::new(vec![column]),
            info: TraceInfo::new_multi_segment(
                1,
                RAND_AUX_WIDTH,
                RAND_AUX_WIDTH,
                trace_len,
                vec![],
            ),
        }
    }
}

impl Trace for RandTrace {
    type BaseField = BaseElement;

    fn info(&self) -> &TraceInfo {
        &self.info
    }

    fn main_segment(&self) -> &ColMatrix<Self::BaseField> {
        &self.main_trace
    }

    fn read_main_frame(&self, row_idx: usize, frame: &mut EvaluationFrame<Self::BaseField>) {
        let next_row_idx = (row_idx + 1) % self.main_trace.num_rows();
        self.main_trace.read_row_into(row_idx, frame.current_mut());
        self.main_trace.read_row_into(next_row_idx, frame.next_mut());
    }
}

struct RandProver {
    options: ProofOptions,
}

impl Prover for RandProver {
    type BaseField = BaseElement;
    type Air = RandAir;
    type Trace = RandTrace;
    type HashFn = Blake3;
    type RandomCoin = Coin;
    type TraceLde<E: FieldElement<BaseField = BaseElement>> = DefaultTraceLde<E, Blake3>;
    type ConstraintEvaluator<'a, E: FieldElement<BaseField = BaseElement>> =
        DefaultConstraintEvaluator<'a, RandAir, E>;

    fn get_pub_inputs(&self, _trace: &Self::Trace) {}

    fn options(&self) -> &ProofOptions {
        &self.options
    }

    fn new_trace_lde<E: FieldElement<BaseField = BaseElement>>(
        &self,
        trace_info: &TraceInfo,
        main_trace: &ColMatrix<BaseElement>,
        domain: &StarkDomain<BaseElement>,
    ) -> (Self::TraceLde<E>, TracePolyTable<E>) {
        DefaultTraceLde::new(trace_info, main_trace, domain)
    }

    fn new_evaluator<'a, E: FieldElement<BaseField = BaseElement>>(
        &self,
        air: &'a RandAir,
        aux_rand_elements: Option<AuxRandElements<E>>,
        composition_coefficients: ConstraintCompositionCoefficients<E>,
    ) -> Self::ConstraintEvaluator<'a, E> {
        DefaultConstraintEvaluator::new(air, aux_rand_elements, composition_coefficients)
    }

    fn build_aux_trace<E>(
        &self,
        main_trace: &Self::Trace,
        aux_rand_elements: &AuxRandElements<E>,
    ) -> ColMatrix<E>
    where
        E: FieldElement<BaseField = Self::BaseField>,
    {
        let main_column = main_trace.main_segment().get_column(0);
        let columns = aux_rand_elements
            .rand_elements()
            .iter()
            .map(|r| main_column.iter().map(|&v| r.mul_base(v)).collect())
            .collect();
        ColMatrix::new(columns)
    }
}

fn rand_honest_proof() -> Proof {
    let prover = RandProver { options: proof_options() };
    let proof = prover.prove(RandTrace::new(64)).unwrap();
    Proof::from_bytes(&proof.to_bytes()).unwrap()
}

#[test]
fn s5_control_honest_rand_proof_verifies() {
    assert!(matches!(run_verify::<RandAir>(rand_honest_proof()), Outcome::Accepted));
}

/// SUSPICION (5): the claimed number of auxiliary random elements is lowered from 2 to 0 (the
/// claimed auxiliary segment keeps its width of 2), so the AIR passes `num_aux_assertions = 0`
/// together with its (fixed) auxiliary constraint degrees.
#[test]
fn s5_zero_aux_assertions_check_is_not_reachable_from_proof_bytes() {
    let mut bytes = rand_honest_proof().to_bytes();
    assert_eq!(bytes[AUX_WIDTH_OFFSET] as usize, RAND_AUX_WIDTH);
    assert_eq!(bytes[AUX_RANDS_OFFSET] as usize, RAND_AUX_WIDTH);
    bytes[AUX_RANDS_OFFSET] = 0;
    let tampered = Proof::from_bytes(&bytes).expect("tampered proof must stay parseable");
    assert!(tampered.trace_info().is_multi_segment());
    assert_eq!(tampered.trace_info().get_num_aux_segment_rand_elements(), 0);
    assert_eq!(tampered.to_bytes(), bytes);
    assert_rejected_without_panic(
        "(5) claimed auxiliary width 2 with 0 random elements, one aux assertion per element",
        run_verify::<RandAir>(tampered),
    );
}

/// Control for (5): lowering the claimed number of random elements from 2 to 1 leaves one
/// auxiliary assertion; the AIR is built and the proof is rejected by the protocol checks.
#[test]
fn s5_control_one_aux_rand_element_is_rejected() {
    let mut bytes = rand_honest_proof().to_bytes();
    bytes[AUX_RANDS_OFFSET] = 1;
    let tampered = Proof::from_bytes(&bytes).expect("tampered proof must stay parseable");
    assert_rejected_without_panic(
        "(5) control, claimed 1 auxiliary random element",
        run_verify::<RandAir>(tampered),
    );
}
