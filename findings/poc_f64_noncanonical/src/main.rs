use winter_math::{fields::f64::BaseElement, FieldElement, StarkField};
use winter_utils::Serializable;
fn main() {
    let x = BaseElement::from_mont((1u64 << 63) - 1);
    let d = x.double();
    let s = x + x;
    println!("double: raw {:#x} vs add raw {:#x}; == {} ; as_int equal {} ; bytes equal {}", d.inner(), s.inner(), d == s, d.as_int() == s.as_int(), d.to_bytes()==s.to_bytes());
    let m = x.mul_small(2);
    println!("mul_small(2): raw {:#x}; == add {} ; as_int equal {}", m.inner(), m == s, m.as_int() == s.as_int());
    let y = BaseElement::from_mont(0xFFFFFFFF00000000);
    println!("mul_small(1) of M-1 raw: {:#x}", y.mul_small(1).inner());
    // how does exp / inv treat it
    println!("d*1 == s*1: {}", d * BaseElement::ONE == s * BaseElement::ONE);
}
