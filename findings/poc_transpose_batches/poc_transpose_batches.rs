// PoC (C14): RowMatrix::evaluate_polys with more batches than rows returns unwritten memory.
// 128 base-field columns of 8 coefficients, blowup 8 => 64 rows x 16 segments = 1024 entries; a pool of 33..64 threads gives 128
// batches, rows_per_batch = 64 / 128 = 0 and no row is ever written.
use math::{fields::f64::BaseElement, FieldElement};
use utils::rayon::ThreadPoolBuilder;
use winter_prover::matrix::{ColMatrix, RowMatrix};

fn build(threads: usize) -> Vec<Vec<BaseElement>> {
    let pool = ThreadPoolBuilder::new().num_threads(threads).build().unwrap();
    pool.install(|| {
        let cols: Vec<Vec<BaseElement>> = (0..128u64)
            .map(|c| (0..8u64).map(|r| BaseElement::new(1 + c * 8 + r)).collect())
            .collect();
        let polys = ColMatrix::new(cols);
        let m = RowMatrix::evaluate_polys::<8>(&polys, 8);
        (0..m.num_rows()).map(|i| m.row(i).to_vec()).collect()
    })
}

#[test]
fn many_threads_equal_single_thread() {
    let reference = build(1);
    for t in [2usize, 8, 32, 33, 40, 64] {
        assert_eq!(reference, build(t), "result with {t} threads differs from the single-threaded one");
    }
}
