// wf-facts: rustc_private driver that dumps type-checked facts (MIR, constants, ADTs, impl tables)
// of every workspace lib crate as one JSON file per crate.  Injected with RUSTC_WORKSPACE_WRAPPER
// under `cargo +nightly check`; argv[1] is the real rustc path and is dropped.
//
// Output: $WF_FACTS_OUT/<crate_name>.json (one write per process).
#![feature(rustc_private)]
#![allow(clippy::all)]

extern crate rustc_abi;
extern crate rustc_driver;
extern crate rustc_hir;
extern crate rustc_interface;
extern crate rustc_middle;
extern crate rustc_span;

mod json;

use json::J;
use rustc_driver::Compilation;
use rustc_hir::def::DefKind;
use rustc_hir::def_id::{DefId, LocalDefId, LOCAL_CRATE};
use rustc_middle::mir::{
    self, AggregateKind, BasicBlock, Body, Const as MirConst, ConstValue, Operand, Place,
    PlaceElem, Rvalue, StatementKind, TerminatorKind,
};
use rustc_middle::ty::print::{with_crate_prefix, with_forced_trimmed_paths, with_no_trimmed_paths, with_no_visible_paths};
use rustc_middle::ty::{self, Instance, Ty, TyCtxt, TypingEnv};
use rustc_span::Span;

struct Cb;

impl rustc_driver::Callbacks for Cb {
    fn after_analysis<'tcx>(
        &mut self,
        _c: &rustc_interface::interface::Compiler,
        tcx: TyCtxt<'tcx>,
    ) -> Compilation {
        if let Ok(out) = std::env::var("WF_FACTS_OUT") {
            let only = std::env::var("WF_FACTS_ONLY").ok();
            let name = tcx.crate_name(LOCAL_CRATE).to_string();
            TCX_CRATE.with(|c| *c.borrow_mut() = name.clone());
            let skip = matches!(tcx.crate_types().first(), Some(rustc_session_crate_type) if format!("{:?}", rustc_session_crate_type).contains("ProcMacro"))
                || name == "build_script_build";
            let wanted = only.map(|o| o.split(',').any(|x| x == name)).unwrap_or(true);
            if !skip && wanted {
                let j = dump_crate(tcx, &name);
                let path = format!("{}/{}.json", out, name);
                let tmp = format!("{}.tmp{}", path, std::process::id());
                std::fs::write(&tmp, j.to_string()).expect("write facts");
                std::fs::rename(&tmp, &path).expect("rename facts");
            }
        }
        Compilation::Continue
    }
}

fn main() {
    let mut args: Vec<String> = std::env::args().collect();
    // RUSTC_WORKSPACE_WRAPPER: argv[1] is the path of the real rustc.
    if args.len() > 1 && (args[1].ends_with("rustc") || args[1].contains("/rustc")) {
        args.remove(1);
    }
    let mut cb = Cb;
    rustc_driver::run_compiler(&args, &mut cb);
}

// ------------------------------------------------------------------------------------------------

fn uid(tcx: TyCtxt<'_>, did: DefId) -> String {
    // crate name + verbose def path: uniform across crates, unique.
    format!("{}{}", tcx.crate_name(did.krate), tcx.def_path(did).to_string_no_crate_verbose())
}

fn fix_crate(tcx: TyCtxt<'_>, s: String) -> String {
    if s.contains("crate::") {
        let cn = tcx.crate_name(LOCAL_CRATE).to_string();
        s.replace("crate::", &format!("{}::", cn))
    } else {
        s
    }
}

fn pretty(tcx: TyCtxt<'_>, did: DefId) -> String {
    let s = with_no_visible_paths!(with_crate_prefix!(with_no_trimmed_paths!(tcx.def_path_str(did))));
    fix_crate(tcx, s)
}

thread_local! {
    static TCX_CRATE: std::cell::RefCell<String> = std::cell::RefCell::new(String::new());
}

fn ty_str<'tcx>(ty: Ty<'tcx>) -> String {
    let s = with_no_visible_paths!(with_crate_prefix!(with_no_trimmed_paths!(format!("{}", ty))));
    if s.contains("crate::") {
        TCX_CRATE.with(|c| s.replace("crate::", &format!("{}::", c.borrow())))
    } else {
        s
    }
}

fn path_str<T: std::fmt::Display>(t: T) -> String {
    let s = with_no_visible_paths!(with_crate_prefix!(with_no_trimmed_paths!(format!("{}", t))));
    if s.contains("crate::") {
        TCX_CRATE.with(|c| s.replace("crate::", &format!("{}::", c.borrow())))
    } else {
        s
    }
}

fn ty_short<'tcx>(ty: Ty<'tcx>) -> String {
    with_forced_trimmed_paths!(format!("{}", ty))
}

struct Ctx<'tcx> {
    tcx: TyCtxt<'tcx>,
    file_cache: std::cell::RefCell<std::collections::HashMap<u32, String>>,
}

impl<'tcx> Ctx<'tcx> {
    fn span_info(&self, sp: Span) -> (String, usize, usize, bool) {
        let sm = self.tcx.sess.source_map();
        let exp = sp.from_expansion();
        // use the call-site span for macro expansions so that lines point into the workspace
        let sp2 = sp.source_callsite();
        let lo = sm.lookup_char_pos(sp2.lo());
        let hi = sm.lookup_char_pos(sp2.hi());
        let fname = match &lo.file.name {
            rustc_span::FileName::Real(r) => {
                if let Some(p) = r.local_path() {
                    p.to_string_lossy().to_string()
                } else {
                    format!("{:?}", r)
                }
            },
            other => format!("{:?}", other),
        };
        let _ = &self.file_cache;
        (fname, lo.line, hi.line, exp)
    }

    fn line(&self, sp: Span) -> (usize, bool) {
        let sm = self.tcx.sess.source_map();
        let exp = sp.from_expansion();
        let sp2 = sp.source_callsite();
        let lo = sm.lookup_char_pos(sp2.lo());
        (lo.line, exp)
    }
}

fn dump_crate<'tcx>(tcx: TyCtxt<'tcx>, name: &str) -> J {
    let cx = Ctx { tcx, file_cache: Default::default() };
    let mut functions = Vec::new();
    let mut consts = Vec::new();
    let mut adts = Vec::new();
    let mut impls = Vec::new();
    let mut traits = Vec::new();

    for ldid in tcx.hir_body_owners() {
        let did = ldid.to_def_id();
        match tcx.def_kind(did) {
            DefKind::Fn | DefKind::AssocFn | DefKind::Closure => {
                if tcx.is_coroutine(did) {
                    continue;
                }
                functions.push(dump_fn(&cx, ldid));
            },
            DefKind::Const { .. } | DefKind::AssocConst { .. } | DefKind::Static { .. } => {
                consts.push(dump_const(&cx, did));
            },
            _ => {},
        }
    }

    for ldid in tcx.hir_crate_items(()).definitions() {
        let did = ldid.to_def_id();
        match tcx.def_kind(did) {
            DefKind::Struct | DefKind::Enum | DefKind::Union => adts.push(dump_adt(&cx, did)),
            DefKind::Impl { .. } => impls.push(dump_impl(&cx, did)),
            DefKind::Trait => traits.push(dump_trait(&cx, did)),
            _ => {},
        }
    }

    J::obj(vec![
        ("crate", J::str(name)),
        ("schema", J::num(1)),
        ("functions", J::Arr(functions)),
        ("consts", J::Arr(consts)),
        ("adts", J::Arr(adts)),
        ("impls", J::Arr(impls)),
        ("traits", J::Arr(traits)),
    ])
}

fn vis_str(tcx: TyCtxt<'_>, did: DefId) -> &'static str {
    match tcx.def_kind(did) {
        DefKind::Fn | DefKind::AssocFn | DefKind::Struct | DefKind::Enum | DefKind::Field => {
            let v = tcx.visibility(did);
            if v.is_public() {
                "pub"
            } else {
                "restricted"
            }
        },
        _ => "n/a",
    }
}

fn dump_adt<'tcx>(cx: &Ctx<'tcx>, did: DefId) -> J {
    let tcx = cx.tcx;
    let adt = tcx.adt_def(did);
    let repr = adt.repr();
    let mut variants = Vec::new();
    for v in adt.variants().iter() {
        let mut fields = Vec::new();
        for f in v.fields.iter() {
            let fty = tcx.type_of(f.did).instantiate_identity().skip_norm_wip();
            fields.push(J::obj(vec![
                ("name", J::str(f.name.as_str())),
                ("ty", J::str(&ty_str(fty))),
                ("pub", J::Bool(tcx.visibility(f.did).is_public())),
            ]));
        }
        variants.push(J::obj(vec![("name", J::str(v.name.as_str())), ("fields", J::Arr(fields))]));
    }
    let (file, lo, hi, _) = cx.span_info(tcx.def_span(did));
    J::obj(vec![
        ("id", J::str(&uid(tcx, did))),
        ("name", J::str(&pretty(tcx, did))),
        ("kind", J::str(if adt.is_enum() { "enum" } else if adt.is_union() { "union" } else { "struct" })),
        ("repr_c", J::Bool(repr.c())),
        ("repr_transparent", J::Bool(repr.transparent())),
        ("repr_packed", J::Bool(repr.packed())),
        ("vis", J::str(vis_str(tcx, did))),
        ("variants", J::Arr(variants)),
        ("file", J::str(&file)),
        ("lo", J::num(lo as i128)),
        ("hi", J::num(hi as i128)),
    ])
}

fn dump_impl<'tcx>(cx: &Ctx<'tcx>, did: DefId) -> J {
    let tcx = cx.tcx;
    let self_ty = tcx.type_of(did).instantiate_identity().skip_norm_wip();
    let tr = tcx.impl_opt_trait_ref(did).map(|t| t.instantiate_identity().skip_norm_wip());
    let mut methods = Vec::new();
    for item in tcx.associated_items(did).in_definition_order() {
        let kind = format!("{:?}", item.kind);
        let k = if kind.starts_with("Fn") {
            "fn"
        } else if kind.starts_with("Const") {
            "const"
        } else {
            "type"
        };
        methods.push(J::obj(vec![
            ("name", J::str(item.name().as_str())),
            ("id", J::str(&uid(tcx, item.def_id))),
            ("kind", J::str(k)),
            (
                "trait_item",
                match item.trait_item_def_id() {
                    Some(t) => J::str(&uid(tcx, t)),
                    None => J::Null,
                },
            ),
        ]));
    }
    let (file, lo, hi, _) = cx.span_info(tcx.def_span(did));
    J::obj(vec![
        ("id", J::str(&uid(tcx, did))),
        ("self_ty", J::str(&ty_str(self_ty))),
        ("self_short", J::str(&ty_short(self_ty))),
        (
            "self_adt",
            match self_ty.kind() {
                ty::Adt(a, _) => J::str(&uid(tcx, a.did())),
                _ => J::Null,
            },
        ),
        (
            "trait",
            match tr {
                Some(t) => J::str(&uid(tcx, t.def_id)),
                None => J::Null,
            },
        ),
        (
            "trait_ref",
            match tr {
                Some(t) => J::str(&path_str(t)),
                None => J::Null,
            },
        ),
        ("items", J::Arr(methods)),
        ("file", J::str(&file)),
        ("lo", J::num(lo as i128)),
        ("hi", J::num(hi as i128)),
    ])
}

fn dump_trait<'tcx>(cx: &Ctx<'tcx>, did: DefId) -> J {
    let tcx = cx.tcx;
    let mut items = Vec::new();
    for item in tcx.associated_items(did).in_definition_order() {
        let kind = format!("{:?}", item.kind);
        let k = if kind.starts_with("Fn") {
            "fn"
        } else if kind.starts_with("Const") {
            "const"
        } else {
            "type"
        };
        items.push(J::obj(vec![
            ("name", J::str(item.name().as_str())),
            ("id", J::str(&uid(tcx, item.def_id))),
            ("kind", J::str(k)),
            ("provided", J::Bool(item.defaultness(tcx).has_value())),
        ]));
    }
    J::obj(vec![
        ("id", J::str(&uid(tcx, did))),
        ("name", J::str(&pretty(tcx, did))),
        ("items", J::Arr(items)),
    ])
}

fn hex(bytes: &[u8]) -> String {
    let mut s = String::with_capacity(bytes.len() * 2);
    for b in bytes {
        s.push_str(&format!("{:02x}", b));
    }
    s
}

fn const_value_json<'tcx>(tcx: TyCtxt<'tcx>, v: ConstValue, ty: Ty<'tcx>) -> Vec<(&'static str, J)> {
    let mut out = Vec::new();
    match v {
        ConstValue::Scalar(s) => {
            if let Ok(si) = s.try_to_scalar_int() {
                let size = si.size();
                let bits = si.to_bits(size);
                out.push(("scalar", J::str(&format!("{}", bits))));
                out.push(("size", J::num(size.bytes() as i128)));
            } else {
                out.push(("ptr", J::Bool(true)));
            }
        },
        ConstValue::ZeroSized => {
            out.push(("zst", J::Bool(true)));
        },
        ConstValue::Slice { alloc_id, meta } => {
            let alloc = tcx.global_alloc(alloc_id).unwrap_memory();
            let a = alloc.inner();
            let len = a.len();
            let bytes = a.inspect_with_uninit_and_ptr_outside_interpreter(0..len);
            out.push(("slice_len", J::num(meta as i128)));
            if len <= 1 << 16 {
                out.push(("bytes", J::str(&hex(bytes))));
            }
        },
        ConstValue::Indirect { alloc_id, offset } => {
            let alloc = tcx.global_alloc(alloc_id).unwrap_memory();
            let a = alloc.inner();
            let len = a.len();
            let off = offset.bytes() as usize;
            let bytes = a.inspect_with_uninit_and_ptr_outside_interpreter(off..len);
            let has_ptrs = !a.provenance().ptrs().is_empty();
            out.push(("size", J::num((len - off) as i128)));
            out.push(("has_ptrs", J::Bool(has_ptrs)));
            if len <= 1 << 17 {
                out.push(("bytes", J::str(&hex(bytes))));
            }
        },
    }
    let _ = ty;
    out
}

fn dump_const<'tcx>(cx: &Ctx<'tcx>, did: DefId) -> J {
    let tcx = cx.tcx;
    let ty = tcx.type_of(did).instantiate_identity().skip_norm_wip();
    let mut fields: Vec<(&'static str, J)> = vec![
        ("id", J::str(&uid(tcx, did))),
        ("name", J::str(&pretty(tcx, did))),
        ("ty", J::str(&ty_str(ty))),
    ];
    // parent impl / trait info for associated consts
    if let Some(imp) = tcx.impl_of_assoc(did) {
        let self_ty = tcx.type_of(imp).instantiate_identity().skip_norm_wip();
        fields.push(("impl_self", J::str(&ty_str(self_ty))));
        if let Some(t) = tcx.impl_opt_trait_ref(imp) {
            fields.push(("impl_trait", J::str(&uid(tcx, t.instantiate_identity().skip_norm_wip().def_id))));
        }
    }
    let (file, lo, _, _) = cx.span_info(tcx.def_span(did));
    fields.push(("file", J::str(&file)));
    fields.push(("line", J::num(lo as i128)));
    let generic = tcx.generics_of(did).requires_monomorphization(tcx);
    if generic {
        fields.push(("generic", J::Bool(true)));
        // a const of a generic impl whose value does not depend on the parameters (`const EXTENSION_DEGREE: usize = 2`)
        if matches!(tcx.def_kind(did), DefKind::AssocConst { .. } | DefKind::Const { .. }) {
            if let Ok(v) = tcx.const_eval_poly(did) {
                fields.extend(const_value_json(tcx, v, ty));
            }
        }
    } else if matches!(tcx.def_kind(did), DefKind::Static { .. }) {
        if let Ok(alloc) = tcx.eval_static_initializer(did) {
            let a = alloc.inner();
            let bytes = a.inspect_with_uninit_and_ptr_outside_interpreter(0..a.len());
            fields.push(("size", J::num(a.len() as i128)));
            if a.len() <= 1 << 17 {
                fields.push(("bytes", J::str(&hex(bytes))));
            }
        }
    } else {
        match tcx.const_eval_poly(did) {
            Ok(v) => fields.extend(const_value_json(tcx, v, ty)),
            Err(_) => fields.push(("eval_error", J::Bool(true))),
        }
    }
    J::obj(fields)
}

// ------------------------------------------------------------------------------------------------

struct FnCx<'a, 'tcx> {
    cx: &'a Ctx<'tcx>,
    body: &'a Body<'tcx>,
    owner: DefId,
    tenv: TypingEnv<'tcx>,
}

fn dump_fn<'tcx>(cx: &Ctx<'tcx>, ldid: LocalDefId) -> J {
    let tcx = cx.tcx;
    let did = ldid.to_def_id();
    let body: &Body<'tcx> = tcx.optimized_mir(did);
    let kind = match tcx.def_kind(did) {
        DefKind::Fn => "fn",
        DefKind::AssocFn => "assoc_fn",
        _ => "closure",
    };
    let fcx = FnCx { cx, body, owner: did, tenv: TypingEnv::post_analysis(tcx, did) };
    let (file, lo, hi, _) = cx.span_info(body.span);

    let mut fields: Vec<(&'static str, J)> = vec![
        ("id", J::str(&uid(tcx, did))),
        ("name", J::str(&pretty(tcx, did))),
        ("kind", J::str(kind)),
        ("file", J::str(&file)),
        ("lo", J::num(lo as i128)),
        ("hi", J::num(hi as i128)),
        ("arg_count", J::num(body.arg_count as i128)),
    ];
    if kind != "closure" {
        fields.push(("vis", J::str(vis_str(tcx, did))));
        let sig = tcx.fn_sig(did).instantiate_identity().skip_norm_wip();
        let sig = sig.skip_binder();
        fields.push(("unsafe", J::Bool(!sig.safety().is_safe())));
        fields.push(("inputs", J::Arr(sig.inputs().iter().map(|t| J::str(&ty_str(*t))).collect())));
        fields.push(("output", J::str(&ty_str(sig.output()))));
        fields.push(("item_name", J::str(tcx.item_name(did).as_str())));
    } else {
        fields.push(("parent_fn", J::str(&uid(tcx, tcx.typeck_root_def_id(did)))));
    }
    // generics
    {
        let g = tcx.generics_of(did);
        let mut names = Vec::new();
        let mut cur = Some(g);
        let mut stack = Vec::new();
        while let Some(gg) = cur {
            stack.push(gg);
            cur = gg.parent.map(|p| tcx.generics_of(p));
        }
        for gg in stack.iter().rev() {
            for p in &gg.own_params {
                names.push(J::str(p.name.as_str()));
            }
        }
        fields.push(("generics", J::Arr(names)));
    }
    // parent impl / trait
    if let Some(imp) = tcx.impl_of_assoc(did) {
        let self_ty = tcx.type_of(imp).instantiate_identity().skip_norm_wip();
        fields.push(("impl", J::str(&uid(tcx, imp))));
        fields.push(("impl_self", J::str(&ty_str(self_ty))));
        fields.push(("impl_self_short", J::str(&ty_short(self_ty))));
        if let ty::Adt(a, _) = self_ty.kind() {
            fields.push(("impl_self_adt", J::str(&uid(tcx, a.did()))));
        }
        if let Some(t) = tcx.impl_opt_trait_ref(imp) {
            let t = t.instantiate_identity().skip_norm_wip();
            fields.push(("impl_trait", J::str(&uid(tcx, t.def_id))));
        }
        if let Some(ti) = tcx.opt_associated_item(did).and_then(|a| a.trait_item_def_id()) {
            fields.push(("trait_item", J::str(&uid(tcx, ti))));
        }
    } else if let Some(tr) = tcx.trait_of_assoc(did) {
        fields.push(("in_trait", J::str(&uid(tcx, tr))));
    }

    // locals
    let mut names: Vec<Option<String>> = vec![None; body.local_decls.len()];
    for vdi in &body.var_debug_info {
        if let mir::VarDebugInfoContents::Place(p) = &vdi.value {
            if p.projection.is_empty() {
                names[p.local.as_usize()] = Some(vdi.name.to_string());
            }
        }
    }
    let mut locals = Vec::new();
    for (i, d) in body.local_decls.iter_enumerated() {
        let mut l = vec![("ty", J::str(&ty_str(d.ty)))];
        if let Some(n) = &names[i.as_usize()] {
            l.push(("name", J::str(n)));
        }
        if let ty::Adt(a, _) = d.ty.peel_refs().kind() {
            l.push(("adt", J::str(&uid(tcx, a.did()))));
        }
        if d.ty.is_ref() || d.ty.is_raw_ptr() {
            l.push(("ref", J::Bool(true)));
            if let ty::Ref(_, _, m) = d.ty.kind() {
                l.push(("mutref", J::Bool(m.is_mut())));
            }
        }
        locals.push(J::obj(l));
    }
    fields.push(("locals", J::Arr(locals)));

    // captured upvars of closures: names
    if kind == "closure" {
        let mut ups = Vec::new();
        for cap in tcx.closure_captures(ldid) {
            ups.push(J::str(&cap.to_string(tcx)));
        }
        fields.push(("upvars", J::Arr(ups)));
    }

    let mut blocks = Vec::new();
    for (_bb, data) in body.basic_blocks.iter_enumerated() {
        let mut stmts = Vec::new();
        for st in &data.statements {
            if let Some(j) = fcx.stmt(st) {
                stmts.push(j);
            }
        }
        let term = fcx.term(data.terminator());
        let mut b = vec![("s", J::Arr(stmts)), ("t", term)];
        if data.is_cleanup {
            b.push(("cleanup", J::Bool(true)));
        }
        blocks.push(J::obj(b));
    }
    fields.push(("blocks", J::Arr(blocks)));
    J::obj(fields)
}

impl<'a, 'tcx> FnCx<'a, 'tcx> {
    fn tcx(&self) -> TyCtxt<'tcx> {
        self.cx.tcx
    }

    fn place(&self, p: &Place<'tcx>) -> J {
        let tcx = self.tcx();
        let mut proj = Vec::new();
        let mut pty = mir::PlaceTy::from_ty(self.body.local_decls[p.local].ty);
        for elem in p.projection.iter() {
            let j = match elem {
                PlaceElem::Deref => J::str("deref"),
                PlaceElem::Field(f, fty) => {
                    let mut o = vec![("f", J::num(f.as_usize() as i128))];
                    if let ty::Adt(adt, _) = pty.ty.kind() {
                        let vidx = pty.variant_index.unwrap_or(rustc_abi::FIRST_VARIANT);
                        if adt.variants().len() > vidx.as_usize() {
                            let v = adt.variant(vidx);
                            if let Some(fd) = v.fields.get(f) {
                                o.push(("n", J::str(fd.name.as_str())));
                            }
                        }
                        o.push(("of", J::str(&uid(tcx, adt.did()))));
                    } else if let ty::Closure(cdid, _) = pty.ty.kind() {
                        o.push(("of", J::str(&uid(tcx, *cdid))));
                        o.push(("upvar", J::Bool(true)));
                    }
                    let _ = fty;
                    J::obj(o)
                },
                PlaceElem::Index(l) => J::obj(vec![("idx", J::num(l.as_usize() as i128))]),
                PlaceElem::ConstantIndex { offset, min_length, from_end } => J::obj(vec![
                    ("cidx", J::num(offset as i128)),
                    ("min", J::num(min_length as i128)),
                    ("from_end", J::Bool(from_end)),
                ]),
                PlaceElem::Subslice { from, to, from_end } => J::obj(vec![
                    ("sub", J::Arr(vec![J::num(from as i128), J::num(to as i128)])),
                    ("from_end", J::Bool(from_end)),
                ]),
                PlaceElem::Downcast(name, v) => J::obj(vec![
                    ("down", J::num(v.as_usize() as i128)),
                    ("vn", J::str(&name.map(|n| n.to_string()).unwrap_or_default())),
                ]),
                PlaceElem::OpaqueCast(_) => J::str("opaque"),
                PlaceElem::UnwrapUnsafeBinder(_) => J::str("unwrap_binder"),
            };
            proj.push(j);
            pty = pty.projection_ty(tcx, elem);
        }
        if proj.is_empty() {
            J::obj(vec![("l", J::num(p.local.as_usize() as i128))])
        } else {
            J::obj(vec![("l", J::num(p.local.as_usize() as i128)), ("p", J::Arr(proj))])
        }
    }

    fn fn_ref(&self, did: DefId, args: ty::GenericArgsRef<'tcx>) -> J {
        let tcx = self.tcx();
        let mut o = vec![
            ("def", J::str(&uid(tcx, did))),
            ("name", J::str(&pretty(tcx, did))),
            ("item", J::str(tcx.opt_item_name(did).map(|s| s.to_string()).unwrap_or_default().as_str())),
            (
                "targs",
                J::Arr(args.iter().map(|a| J::str(&path_str(a))).collect()),
            ),
        ];
        if matches!(tcx.def_kind(did), DefKind::AssocFn) {
            if let Some(tr) = tcx.trait_of_assoc(did) {
                o.push(("trait", J::str(&uid(tcx, tr))));
                // try to resolve to a concrete impl method
                if let Ok(Some(inst)) = Instance::try_resolve(tcx, self.tenv, did, args) {
                    let rd = inst.def_id();
                    if rd != did {
                        o.push(("resolved", J::str(&uid(tcx, rd))));
                    } else {
                        o.push(("resolved_default", J::Bool(true)));
                    }
                }
            } else if let Some(imp) = tcx.impl_of_assoc(did) {
                let st = tcx.type_of(imp).instantiate_identity().skip_norm_wip();
                o.push(("impl_self", J::str(&ty_str(st))));
                if let ty::Adt(a, _) = st.kind() {
                    o.push(("impl_self_adt", J::str(&uid(tcx, a.did()))));
                }
                if let Some(t) = tcx.impl_opt_trait_ref(imp) {
                    o.push(("impl_trait", J::str(&uid(tcx, t.instantiate_identity().skip_norm_wip().def_id))));
                }
            }
        }
        J::obj(o)
    }

    fn constant(&self, c: &mir::ConstOperand<'tcx>) -> J {
        let tcx = self.tcx();
        let ty = c.const_.ty();
        let mut o = vec![("ty", J::str(&ty_str(ty)))];
        match ty.kind() {
            ty::FnDef(did, args) => {
                o.push(("fn", self.fn_ref(*did, args)));
                return J::obj(vec![("const", J::obj(o))]);
            },
            _ => {},
        }
        match c.const_ {
            MirConst::Unevaluated(uv, _) => {
                o.push(("def", J::str(&uid(tcx, uv.def))));
                o.push(("def_name", J::str(&pretty(tcx, uv.def))));
                if let Some(p) = uv.promoted {
                    o.push(("promoted", J::num(p.as_usize() as i128)));
                    // value of the promoted constant (a reference to an anonymous static): dump the pointee bytes
                    if let Ok(v) = c.const_.eval(tcx, self.tenv, rustc_span::DUMMY_SP) {
                        if let ConstValue::Scalar(sc) = v {
                            if let rustc_middle::mir::interpret::Scalar::Ptr(ptr, _) = sc {
                                let (prov, off) = ptr.into_raw_parts();
                                if let rustc_middle::mir::interpret::GlobalAlloc::Memory(alloc) = tcx.global_alloc(prov.alloc_id()) {
                                    let a = alloc.inner();
                                    let off = off.bytes() as usize;
                                    if a.len() >= off && a.len() - off <= 256 && a.provenance().ptrs().is_empty() {
                                        let bytes = a.inspect_with_uninit_and_ptr_outside_interpreter(off..a.len());
                                        o.push(("pbytes", J::str(&hex(bytes))));
                                    }
                                }
                            }
                        }
                    }
                }
                if !uv.args.is_empty() {
                    o.push((
                        "targs",
                        J::Arr(uv.args.iter().map(|a| J::str(&path_str(a))).collect()),
                    ));
                }
            },
            MirConst::Ty(_, ct) => {
                o.push(("tyconst", J::str(&format!("{}", ct))));
            },
            MirConst::Val(..) => {},
        }
        // evaluate when possible (integers, bools, chars)
        if ty.is_integral() || ty.is_bool() || ty.is_char() {
            if let Some(si) = c.const_.try_eval_scalar_int(tcx, self.tenv) {
                let bits = si.to_bits(si.size());
                o.push(("scalar", J::str(&format!("{}", bits))));
                o.push(("size", J::num(si.size().bytes() as i128)));
            }
        } else if let MirConst::Val(v, _) = c.const_ {
            // small aggregate constants (e.g. BaseElement literals)
            match v {
                ConstValue::Scalar(s) => {
                    if let Ok(si) = s.try_to_scalar_int() {
                        o.push(("scalar", J::str(&format!("{}", si.to_bits(si.size())))));
                        o.push(("size", J::num(si.size().bytes() as i128)));
                    }
                },
                ConstValue::Slice { alloc_id, meta } => {
                    let alloc = tcx.global_alloc(alloc_id).unwrap_memory();
                    let a = alloc.inner();
                    if a.len() <= 256 {
                        let bytes = a.inspect_with_uninit_and_ptr_outside_interpreter(0..a.len());
                        o.push(("bytes", J::str(&hex(bytes))));
                    }
                    o.push(("slice_len", J::num(meta as i128)));
                },
                ConstValue::ZeroSized => {
                    o.push(("zst", J::Bool(true)));
                },
                ConstValue::Indirect { alloc_id, offset } => {
                    if let rustc_middle::mir::interpret::GlobalAlloc::Memory(alloc) = tcx.global_alloc(alloc_id) {
                        let a = alloc.inner();
                        let off = offset.bytes() as usize;
                        if a.len() - off <= 256 {
                            let bytes = a.inspect_with_uninit_and_ptr_outside_interpreter(off..a.len());
                            o.push(("bytes", J::str(&hex(bytes))));
                        }
                    }
                },
            }
        }
        J::obj(vec![("const", J::obj(o))])
    }

    fn operand(&self, op: &Operand<'tcx>) -> J {
        match op {
            Operand::Copy(p) => J::obj(vec![("copy", self.place(p))]),
            Operand::Move(p) => J::obj(vec![("move", self.place(p))]),
            Operand::Constant(c) => self.constant(c),
            #[allow(unreachable_patterns)]
            _ => J::obj(vec![("other", J::str(&format!("{:?}", op)))]),
        }
    }

    fn rvalue(&self, rv: &Rvalue<'tcx>) -> J {
        let tcx = self.tcx();
        match rv {
            Rvalue::Use(op, _) => J::obj(vec![("k", J::str("use")), ("a", self.operand(op))]),
            Rvalue::Repeat(op, n) => J::obj(vec![
                ("k", J::str("repeat")),
                ("a", self.operand(op)),
                ("n", J::str(&format!("{}", n))),
            ]),
            Rvalue::Ref(_, bk, p) => J::obj(vec![
                ("k", J::str("ref")),
                ("mut", J::Bool(matches!(bk, mir::BorrowKind::Mut { .. }))),
                ("p", self.place(p)),
            ]),
            Rvalue::RawPtr(kind, p) => J::obj(vec![
                ("k", J::str("rawptr")),
                ("mut", J::Bool(format!("{:?}", kind).contains("Mut"))),
                ("p", self.place(p)),
            ]),
            Rvalue::Cast(ck, op, ty) => {
                let cks = format!("{:?}", ck);
                let ck_short = cks.split('(').next().unwrap_or("").to_string();
                J::obj(vec![
                    ("k", J::str("cast")),
                    ("ck", J::str(&ck_short)),
                    ("ckfull", J::str(&cks)),
                    ("a", self.operand(op)),
                    ("from", J::str(&ty_str(op.ty(&self.body.local_decls, tcx)))),
                    ("to", J::str(&ty_str(*ty))),
                ])
            },
            Rvalue::BinaryOp(op, ab) => {
                let (a, b) = &**ab;
                J::obj(vec![
                    ("k", J::str("bin")),
                    ("op", J::str(&format!("{:?}", op))),
                    ("a", self.operand(a)),
                    ("b", self.operand(b)),
                    ("ty", J::str(&ty_str(a.ty(&self.body.local_decls, tcx)))),
                ])
            },
            Rvalue::UnaryOp(op, a) => J::obj(vec![
                ("k", J::str("un")),
                ("op", J::str(&format!("{:?}", op))),
                ("a", self.operand(a)),
                ("ty", J::str(&ty_str(a.ty(&self.body.local_decls, tcx)))),
            ]),
            Rvalue::Discriminant(p) => J::obj(vec![("k", J::str("discr")), ("p", self.place(p))]),
            Rvalue::Aggregate(kind, ops) => {
                let mut o = vec![("k", J::str("agg"))];
                match &**kind {
                    AggregateKind::Array(t) => {
                        o.push(("agg", J::str("array")));
                        o.push(("elem", J::str(&ty_str(*t))));
                    },
                    AggregateKind::Tuple => o.push(("agg", J::str("tuple"))),
                    AggregateKind::Adt(did, vidx, _args, _, active) => {
                        let adt = tcx.adt_def(*did);
                        o.push(("agg", J::str("adt")));
                        o.push(("adt", J::str(&uid(tcx, *did))));
                        o.push(("variant", J::num(vidx.as_usize() as i128)));
                        o.push(("vn", J::str(adt.variant(*vidx).name.as_str())));
                        let fnames: Vec<J> =
                            adt.variant(*vidx).fields.iter().map(|f| J::str(f.name.as_str())).collect();
                        o.push(("fields", J::Arr(fnames)));
                        if let Some(a) = active {
                            o.push(("active", J::num(a.as_usize() as i128)));
                        }
                    },
                    AggregateKind::Closure(did, _) => {
                        o.push(("agg", J::str("closure")));
                        o.push(("closure", J::str(&uid(tcx, *did))));
                    },
                    AggregateKind::RawPtr(..) => o.push(("agg", J::str("rawptr"))),
                    _ => o.push(("agg", J::str("other"))),
                }
                o.push(("ops", J::Arr(ops.iter().map(|x| self.operand(x)).collect())));
                J::obj(o)
            },
            Rvalue::CopyForDeref(p) => J::obj(vec![
                ("k", J::str("use")),
                ("a", J::obj(vec![("copy", self.place(p))])),
            ]),
            Rvalue::ThreadLocalRef(_) => J::obj(vec![("k", J::str("other")), ("text", J::str("tls"))]),
            Rvalue::WrapUnsafeBinder(op, _) => J::obj(vec![("k", J::str("use")), ("a", self.operand(op))]),
            #[allow(unreachable_patterns)]
            _ => J::obj(vec![("k", J::str("other")), ("text", J::str(&format!("{:?}", rv)))]),
        }
    }

    fn stmt(&self, st: &mir::Statement<'tcx>) -> Option<J> {
        let (line, exp) = self.cx.line(st.source_info.span);
        let mut o = match &st.kind {
            StatementKind::Assign(b) => {
                let (p, rv) = &**b;
                vec![("k", J::str("assign")), ("lhs", self.place(p)), ("rv", self.rvalue(rv))]
            },
            StatementKind::SetDiscriminant { place, variant_index } => vec![
                ("k", J::str("setdiscr")),
                ("lhs", self.place(place)),
                ("variant", J::num(variant_index.as_usize() as i128)),
            ],
            StatementKind::Intrinsic(i) => match &**i {
                mir::NonDivergingIntrinsic::Assume(op) => vec![("k", J::str("assume")), ("a", self.operand(op))],
                mir::NonDivergingIntrinsic::CopyNonOverlapping(c) => vec![
                    ("k", J::str("copy_nonoverlapping")),
                    ("src", self.operand(&c.src)),
                    ("dst", self.operand(&c.dst)),
                    ("count", self.operand(&c.count)),
                ],
            },
            _ => return None,
        };
        o.push(("line", J::num(line as i128)));
        if exp {
            o.push(("exp", J::Bool(true)));
        }
        Some(J::obj(o))
    }

    fn bb(&self, b: BasicBlock) -> J {
        J::num(b.as_usize() as i128)
    }

    fn term(&self, t: &mir::Terminator<'tcx>) -> J {
        let tcx = self.tcx();
        let (line, exp) = self.cx.line(t.source_info.span);
        let mut o: Vec<(&'static str, J)> = match &t.kind {
            TerminatorKind::Goto { target } => vec![("k", J::str("goto")), ("target", self.bb(*target))],
            TerminatorKind::SwitchInt { discr, targets } => {
                let mut ts = Vec::new();
                for (v, bb) in targets.iter() {
                    ts.push(J::Arr(vec![J::str(&format!("{}", v)), self.bb(bb)]));
                }
                vec![
                    ("k", J::str("switch")),
                    ("d", self.operand(discr)),
                    ("dty", J::str(&ty_str(discr.ty(&self.body.local_decls, tcx)))),
                    ("targets", J::Arr(ts)),
                    ("otherwise", self.bb(targets.otherwise())),
                ]
            },
            TerminatorKind::UnwindResume => vec![("k", J::str("resume"))],
            TerminatorKind::UnwindTerminate(_) => vec![("k", J::str("abort"))],
            TerminatorKind::Return => vec![("k", J::str("return"))],
            TerminatorKind::Unreachable => vec![("k", J::str("unreachable"))],
            TerminatorKind::Drop { place, target, unwind, .. } => {
                let mut v = vec![("k", J::str("drop")), ("p", self.place(place)), ("target", self.bb(*target))];
                if let mir::UnwindAction::Cleanup(bb) = unwind {
                    v.push(("unwind", self.bb(*bb)));
                }
                v
            },
            TerminatorKind::Call { func, args, destination, target, unwind, .. } => {
                let mut v = vec![("k", J::str("call"))];
                match func {
                    Operand::Constant(c) => match c.const_.ty().kind() {
                        ty::FnDef(did, gargs) => v.push(("fn", self.fn_ref(*did, gargs))),
                        _ => v.push(("indirect", self.operand(func))),
                    },
                    _ => v.push(("indirect", self.operand(func))),
                }
                v.push(("args", J::Arr(args.iter().map(|a| self.operand(&a.node)).collect())));
                v.push(("dest", self.place(destination)));
                v.push(("dest_ty", J::str(&ty_str(destination.ty(&self.body.local_decls, tcx).ty))));
                v.push(("target", target.map(|b| self.bb(b)).unwrap_or(J::Null)));
                if let mir::UnwindAction::Cleanup(bb) = unwind {
                    v.push(("unwind", self.bb(*bb)));
                }
                v
            },
            TerminatorKind::TailCall { func, args, .. } => vec![
                ("k", J::str("tailcall")),
                ("indirect", self.operand(func)),
                ("args", J::Arr(args.iter().map(|a| self.operand(&a.node)).collect())),
            ],
            TerminatorKind::Assert { cond, expected, msg, target, unwind } => {
                use mir::AssertKind::*;
                let (kind, ops): (String, Vec<J>) = match &**msg {
                    BoundsCheck { len, index } => {
                        ("BoundsCheck".into(), vec![self.operand(len), self.operand(index)])
                    },
                    Overflow(op, a, b) => (format!("Overflow({:?})", op), vec![self.operand(a), self.operand(b)]),
                    OverflowNeg(a) => ("OverflowNeg".into(), vec![self.operand(a)]),
                    DivisionByZero(a) => ("DivisionByZero".into(), vec![self.operand(a)]),
                    RemainderByZero(a) => ("RemainderByZero".into(), vec![self.operand(a)]),
                    MisalignedPointerDereference { .. } => ("MisalignedPointer".into(), vec![]),
                    NullPointerDereference => ("NullPointer".into(), vec![]),
                    InvalidEnumConstruction(_) => ("InvalidEnum".into(), vec![]),
                    _ => ("Other".into(), vec![]),
                };
                let mut v = vec![
                    ("k", J::str("assert")),
                    ("cond", self.operand(cond)),
                    ("expected", J::Bool(*expected)),
                    ("msg", J::str(&kind)),
                    ("ops", J::Arr(ops)),
                    ("target", self.bb(*target)),
                ];
                if let mir::UnwindAction::Cleanup(bb) = unwind {
                    v.push(("unwind", self.bb(*bb)));
                }
                v
            },
            TerminatorKind::FalseEdge { real_target, .. } => {
                vec![("k", J::str("goto")), ("target", self.bb(*real_target))]
            },
            TerminatorKind::FalseUnwind { real_target, .. } => {
                vec![("k", J::str("goto")), ("target", self.bb(*real_target))]
            },
            other => vec![("k", J::str("other")), ("text", J::str(&format!("{:?}", other)))],
        };
        o.push(("line", J::num(line as i128)));
        if exp {
            o.push(("exp", J::Bool(true)));
        }
        let _ = self.owner;
        J::obj(o)
    }
}
