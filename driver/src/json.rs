// Minimal JSON value + serializer (no dependencies).
pub enum J {
    Null,
    Bool(bool),
    Num(i128),
    Str(String),
    Arr(Vec<J>),
    Obj(Vec<(&'static str, J)>),
}

impl J {
    pub fn str(s: &str) -> J {
        J::Str(s.to_string())
    }
    pub fn num(n: i128) -> J {
        J::Num(n)
    }
    pub fn obj(v: Vec<(&'static str, J)>) -> J {
        J::Obj(v)
    }
    pub fn to_string(&self) -> String {
        let mut s = String::new();
        self.write(&mut s);
        s
    }
    fn write(&self, out: &mut String) {
        match self {
            J::Null => out.push_str("null"),
            J::Bool(b) => out.push_str(if *b { "true" } else { "false" }),
            J::Num(n) => out.push_str(&n.to_string()),
            J::Str(s) => esc(s, out),
            J::Arr(v) => {
                out.push('[');
                for (i, x) in v.iter().enumerate() {
                    if i > 0 {
                        out.push(',');
                    }
                    x.write(out);
                }
                out.push(']');
            },
            J::Obj(v) => {
                out.push('{');
                for (i, (k, x)) in v.iter().enumerate() {
                    if i > 0 {
                        out.push(',');
                    }
                    esc(k, out);
                    out.push(':');
                    x.write(out);
                }
                out.push('}');
            },
        }
    }
}

fn esc(s: &str, out: &mut String) {
    out.push('"');
    for c in s.chars() {
        match c {
            '"' => out.push_str("\\\""),
            '\\' => out.push_str("\\\\"),
            '\n' => out.push_str("\\n"),
            '\r' => out.push_str("\\r"),
            '\t' => out.push_str("\\t"),
            c if (c as u32) < 0x20 => out.push_str(&format!("\\u{:04x}", c as u32)),
            c => out.push(c),
        }
    }
    out.push('"');
}
