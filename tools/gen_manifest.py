#!/usr/bin/env python3
"""Regenerates /verif/MANIFEST.json from the table below (single source of truth for the interface)."""
import json, os
V = os.path.dirname(os.path.dirname(os.path.abspath(__file__)))
ALL = [json.loads(l)["id"] for l in open(os.path.join(V, "properties.jsonl"))]

TRUST = ("Trusted base: rustc's MIR construction and trait resolution; the wf-facts driver's JSON dump; the Python analyser "
         "(CFG reachability, flow-sensitive may-dependence). May-dependence can hide a violation but cannot raise one; "
         "must-ness comes from reachability on the CFG with the required sites removed.")

CHECKS = {
 "C04": dict(
   technique="static analysis: must-pass-through (dominance) over the inter-procedurally expanded MIR CFG + data-flow origin of absorbed values",
   text="Static proof, for all paths of the generic (pre-monomorphisation) MIR of verify() and Prover::generate_proof, that every coin "
        "draw is preceded by the absorption of every earlier prover message in protocol order, that what is absorbed is what the proof "
        "carries, that the seed covers every field of the context and the public inputs, and that used challenges come from their draws. "
        "Necessary structural condition of the property for every AIR/field/hasher/coin at once; equality of the hash values computed "
        "on the two sides is not decided. The digest absorbed for the OOD trace frame covers every data-carrying field by CONTENT (a field whose length alone reaches the hashed buffer is not covered); a hand-written chunk loop in to_elements must tile the whole field (evaluated for every length up to four elements and every element size); (SENT) the FRI remainder carried in the proof is the one whose hash was absorbed.",
   design_ref="DESIGN.md §3 C04"),
}
CHECKS["C05"] = dict(
   technique="static analysis: MUST-GUARDS summaries (reject decisions dominating acceptance, inter-procedural, per-iteration form for loops) + canonical comparison and data-flow origin of operands",
   text="Static proof over all paths of the generic MIR of FriVerifier::verify that acceptance is dominated by the degree-truncation, "
        "layer-commitment, folding-consistency, remainder-size, remainder-evaluation and remainder-commitment decisions, each matched by its "
        "canonical comparison (reject iff L op R) and by the origin of L and R (channel reads, stored commitments and alphas, max_poly_degree); "
        "layer and remainder loops range over all layers/positions; commitments are absorbed before the challenge that folds them. Necessary "
        "structural condition for soundness against every adversary strategy; the folding arithmetic itself is not decided.",
   design_ref="DESIGN.md §3 C03/C05/C02")
CHECKS["C03"] = dict(
   technique="static analysis: binding table over proof components checked by must-pass-through + data-flow origin; Merkle/leaf recomputation flow; reader/trailing-byte pairing",
   text="Static proof that every field of Proof is consumed by the verifier channel and every parsed component is tied to the transcript before "
        "the query positions are drawn: absorbed (must-pass reseed whose data originates in the component), authenticated by a Merkle decision "
        "against an absorbed root with leaves recomputed from the returned values, or hash-compared with an absorbed commitment; every sub-parser "
        "rejects trailing bytes on all accepting paths. A component without a binding (e.g. a new field, a dropped absorption, a weakened "
        "exact-length decision) is reported. Hash/Merkle arithmetic is not decided. Also: TraceQueries::new / ConstraintQueries::new keep the Merkle opening of every Queries::parse whose table they keep (no segment's openings are silently dropped). (U) No decoded content of an accepted proof is left unused: a batch Merkle opening has one leaf per position and every node of every node vector is consumed, and the presence of the optional GKR proof is examined on every accepting path. (U) also: the number of node vectors of a batch opening equals the number of normalised positions (a surplus node vector is unbound decoded content).",
   design_ref="DESIGN.md §3 C03/C05/C02")
CHECKS["C18"] = dict(
   technique="static analysis: must-pass policy decision per enum arm, canonical comparisons, and normal-form comparison of path-wise symbolic expressions with the documented formula",
   text="Static proof that verify() runs the policy decision first and propagates it, that under each AcceptableOptions variant the accepting "
        "path passes `security_level(right flag) < minimum` with the right error (option set: no listed option equals the proof's), that "
        "security_level dispatches to the right estimate fed from the proof context and H::COLLISION_RESISTANCE, that the claimed-field "
        "decision dominates acceptance, and that the integer conjectured estimate equals the documented formula on every path (symbolic "
        "normal form, all parameter values at once). Monotonicity and the floating-point proven estimate are not decided. (EQ) the equality of ProofOptions that the option-set policy relies on is structural (all fields compared pairwise) or an encoding proved injective on the model of legal option values.",
   design_ref="DESIGN.md §3 C18")
CHECKS["C13"] = dict(
   technique="static analysis: must-pass cursor advance with inter-method summaries, call-graph absence rule for &self methods, truncation/position pairing, control-dependence of end-of-data sites",
   text="Static proof over every path of every ByteReader method of SliceReader, Cursor and ReadAdapter that a successful consuming read "
        "advances the cursor, that the &self look-ahead methods cannot consume, that truncating the spill buffer is paired with a store to "
        "the position and buffered bytes are only read positioned by it, and that end-of-data is reported/latched only under an observed "
        "empty fill or reader error. Necessary conditions of `each byte exactly once` and `never reports missing data that is available`; "
        "value equality with the slice reader for all chunkings is not decided. REFILL: the end-of-data-reporting refill functions are called only after a decision `buffered < requested` (strict) or `local buffer empty` on every path. AMT: every copy out of a buffer is followed by an advance of exactly the copied count. STALE: a copy of the position taken before the buffer is compacted is not used afterwards. MORE: has_more_bytes answers false only after the local buffer was observed empty.  AMT counts slice copies (copy_from_slice) like raw copies and requires bytes handed to the caller to come from the unread view of the local buffer.",
   design_ref="DESIGN.md §3 C13")
CHECKS["C19"] = dict(
   technique="static analysis: data-flow dependence shape of every RandomCoin method on all paths, must-pass state updates, canonical comparison of the prover's and verifier's proof-of-work predicates",
   text="Static proof over every path of each RandomCoin implementation that seed and counter updates have the documented dependence shape "
        "(new/reseed/next/draw_integers), that every drawn element is the Some payload of the field's validated conversion of a fresh next() "
        "output and the counter advances once per output, that integers are next() outputs reduced to the power-of-two domain (mask or remainder) and counted, that the proof-of-work measure is read-only and "
        "counter-independent, and that the prover's search predicate is the exact complement of the verifier's reject predicate. Statistical "
        "statements are not decided. (VALID) from_random_bytes, the conversion behind draw, constructs only elements inside the field's representation range for every byte string (interval analysis, shared with C07's REPR). (SEP, shared with C11) merge_with_int — the function through which the nonce and the counter enter the hash — encodes the whole integer: one limb iff value < MODULUS, otherwise value % M and value / M (the constant ONE only where the quotient is always one).",
   design_ref="DESIGN.md §3 C19")
CHECKS["C15"] = dict(
   technique="static analysis: typestate (clean/dirty) as must-pass-through on all return paths, control-dependence of the divisibility decision, sibling agreement of prover and verifier loops",
   text="Static proof that FriProver::build_proof empties layers and remainder on every return path and refuses to run unless dirty, that "
        "build_layers refuses to run unless clean and always stores a remainder, that FriVerifier::new exempts the remainder commitment from "
        "the divisibility requirement, and that prover and verifier take the layer count from FriOptions::num_fri_layers and fold positions/"
        "shrink the domain once per layer with the same function. Necessary conditions of reuse and of acceptance of honest proofs with short "
        "remainders; the folding identity is not decided. (SENT) the remainder handed to FriProof::new is the stored remainder polynomial reached through copies only, and the stored vector is the one whose hash was committed; (T, carried state) no field written while building a proof survives reset() to be rebuilt only behind an ordering test on its own size; (WIDTH) the length prefixes of FriProof/FriProofLayer hold the byte strings of a legal schedule. (FOLDABLE) the proof parser's foldability test looks at the domain of the layer being parsed. The prover's state fields are found by their types, the per-layer loop may be a closure, the exemption test may carry the literal on either side.",
   design_ref="DESIGN.md §3 C15")
CHECKS["C02"] = dict(
   technique="static analysis: MUST-GUARDS (OOD-consistency decision dominates acceptance), dependence of the verifier's constraint evaluation on every family, complementary coefficient partition, seed field coverage",
   text="Static proof that acceptance is dominated by the OOD-consistency decision with operands originating in evaluate_constraints and in "
        "the opened composition columns, that evaluate_constraints' result depends on every transition/boundary/Lagrange family with the drawn "
        "coefficients at the drawn point, that coefficient lists are split into complementary main/auxiliary parts (no shared or skipped "
        "randomness), and that the statement (context with every field, public inputs) is bound into the seed. Necessary conditions of soundness "
        "for every AIR; (EXEMPT) ConstraintDivisor::from_transition(n, k) exempts exactly the points g^s, n-k <= s < n (decided for the mapped-range "
        "and push-loop forms; a window shifted by constants or a running point multiplied by itself is reported; other forms are not decided). "
        "The remaining divisor arithmetic and rejection for every invalid trace are not decided. (ADIV) ConstraintDivisor::from_assertion builds x^k - g^(k*first_step) with k = get_num_steps: degree, exponent (the product of exactly these two values), domain of the generator, the constant ONE only behind the true edge of first_step == 0, no exemption points. (COUNT) coefficient-drawing loops run over 0..N. (COUNT) every coefficient is a separate draw (a draw replicated by vec![..; n] is reported); (GROUPKEY) the divisor group of a boundary assertion is chosen by both its stride and its first step; the seed rules include hand-written chunk loops and staging buffers of to_elements.",
   design_ref="DESIGN.md §3 C03/C05/C02")
CHECKS["C17"] = dict(
   technique="static analysis: writer/reader agreement by data-flow dependence with callee summaries, control-dependence of the classification, unit consistency of domain-scale accessors",
   text="Static proof that every boundary-constraint representation the prover's constructors write is read by the evaluator and reaches its "
        "result, that the classification by polynomial length is a partition stored class by class, that the pre-evaluated representation "
        "uses constraint-evaluation-domain units for both values and step offset, that every evaluation column is folded with its divisor, "
        "that the full-fragment evaluator includes the auxiliary terms, and (shared with C02) that coefficients are partitioned and the "
        "verifier's evaluation depends on every family. Numerical equality with the definition is not decided. (COLS, shared with C01) the number of composition columns is max(1, ceil((D+1)/trace_length)); (DERIVED) no cached column count survives a setter of the exemption count. (K) the classification of boundary constraints is decided per polynomial length (which push sites stay reachable for lengths 1, 2, 3, S-1, S, S+1, 4S), independent of the order and spelling of the tests; (DEDUP) dedup() in the constraint-evaluation code only after a sort of the same vector; (PERIODIC) the verifier's per-column evaluation of periodic polynomials carries no scalar state from one column to the next.",
   design_ref="DESIGN.md §3 C17")
CHECKS["C07"] = dict(
   technique="static analysis: exact integer arithmetic on constants extracted from the compiled crates (Lucas primality proof, orders), MUST-GUARDS for modulus decisions with comparison width, MIR lint for normalisation and canonical serialisation, interval abstract interpretation with case splits for the representation range, abstract interpretation in the domain of exact integer-linear forms with quotient/remainder atoms (E5b) for the carry/borrow logic",
   text="Static proof per field that the published constants satisfy their defining equations (modulus proved prime, two-adicity, orders of "
        "root of unity and generator, Montgomery constants), that every checked conversion and the deserializer reject exactly the values >= M "
        "of their own field before any truncation on every accepting path, that the [0,2M) field tests raw values only after normalisation and "
        "returns normalised integers, that serialisation is canonical, and (REPR) that the representation range is inductive: assuming every "
        "incoming element is in range (f62: [0,2M); f64: canonical [0,M)), every element constructed by new/add/sub/mul/neg/double/mul_small/"
        "inv/conversions is in range for all inputs (interval analysis with exact case splits; for f64 the range of mont_red_cst/var is an "
        "assumption). (ARITH) For add, sub, neg, double in all three fields, the Montgomery mul/new/as_int of f62 and f64 (mont_red_cst included), f62 "
        "square, f64 mul_small and f128 new, the stored integer is congruent modulo p to the integer operation on the operands on every "
        "carry/borrow path and lies in the representation range, for all operands in that range (exact linear forms with exact quotient/"
        "remainder splitting and polyhedral side conditions; 19 operations). Not decided: f128 mul, inv, exp.",
   note="Assumption (f64 REPR, interval engine only): mont_red_cst / mont_red_var return values in [0, M); for mul, new and as_int this is proved by ARITH. (EXPBITS) no loop of an exponentiation routine (exp, exp_vartime, exp_acc) is bounded by a constant of the field: the exponent type decides how many bits are scanned.",
   design_ref="DESIGN.md §3 C07")
CHECKS["C11"] = dict(
   technique="static analysis: control-dependence of the zero-copy byte view on IS_CANONICAL, monotone-counter rule with sibling cross-check, exact arithmetic on constant tables, data/control dependence of the capacity element on the input length, abstract interpretation in the domain of exact integer-linear forms (E5b) for the frequency-domain MDS product",
   text="Static proof that byte-oriented element hashing reinterprets memory only for canonical representations, that all Rescue byte sponges "
        "detect the last chunk with a counter that is never reset in the loop, that MDS x INV_MDS = I, ALPHA x INV_ALPHA = 1 mod p-1 and the "
        "tables have the documented shape (circulant where the frequency-domain product is used), and that every sponge entry writes a "
        "length-dependent value into a fixed capacity position, and (FAST) that mds_multiply for the 12x12 and 8x8 matrices stores, for every input "
        "state and on every carry case of its final reduction, values congruent modulo p to the product with the hasher's MDS table (limb split, "
        "real FFTs, Hadamard blocks and inverse FFTs without overflow included). Equality with the reference permutations beyond the MDS layer "
        "(round constants, S-box exponents) is not decided. (ZPAD) in every Rescue byte sponge a chunk of variable length is copied into a staging buffer re-initialised since the chunk was fetched (no bytes of the previous chunk behind the padding byte). (SEP) refinements: the length injected by hash_elements is the length of the base-element slice that is absorbed; in merge_with_int the high limb is value / MODULUS, or the constant ONE exactly where 2*MODULUS exceeds the integer type.",
   design_ref="DESIGN.md §3 C11")
CHECKS["C12"] = dict(
   technique="static analysis: token-grammar extraction from the MIR of every write_into/read_from pair with path-set comparison; limit agreement between constructor assertions, writer casts and reader decisions",
   text="Static proof, for all 38 types with both impls, that the set of token sequences the writer can emit equals the set the reader consumes on "
        "its accepting paths (byte widths, order, nesting, repetition), that every narrowing cast of TraceInfo::write_into receives only values its "
        "target type can hold for everything the constructor can return (interval analysis; on the release configuration too, where the "
        "constructor's arithmetic is unchecked), and that the set of shapes accepted by read_from equals the set accepted by the constructor "
        "(accepted sets compared as unions of boxes with sum constraints). Decides the structural half "
        "of the round trip (in particular for Proof, which no test round-trips); equality of decoded field values and reader-implementation "
        "independence are C07/C13. (WIDTH) every length prefix written for a byte-string field of a proof component (10 prefixes; widths read from the writer's MIR, protocol limits from the compiled constants) holds the length that field has in an ordinary legal configuration — a prefix narrowed consistently on both sides is reported; for winter-fri's stand-alone FriProof the limit is what FriOptions::new accepts (E4): its 16-bit remainder prefix is an open known finding. (VINT) the function computing the encoded length of write_usize is evaluated by the interval engine on a partition of all 64-bit values into 129 bit-length classes: the length is 9 or holds the value in 7 bits per byte.",
   design_ref="DESIGN.md §3 C12")
CHECKS["C14"] = dict(
   technique="static analysis (lint over the MIR of the `concurrent` build configuration): who-may-call rule for scheduling-dependent combinators, inventory of raw-pointer reborrows in parallel code, consumption rule for the worker count, sibling signatures",
   text="Static analysis of the feature-enabled build (which the test suite never compiles): scheduling-dependent rayon combinators occur only "
        "in the nonce search; the functions that re-create a mutable slice from a raw pointer inside parallel code are exactly the three "
        "reviewed ones; the raw worker count is consumed only through next_power_of_two() so batch boundaries stay aligned for every pool "
        "size; in fragment evaluators a row position handed to anything but the fragment derives from fragment.offset(); public functions of "
        "`concurrent` modules have serial siblings with identical signatures. Index-disjointness at the raw-pointer "
        "sites and bit-identity of results are not decided. (Z) a per-batch count x / batches(size) divides the quantity the thresholded batch-count helper was asked about, or the batch count is capped by x (genuine defect F32 of the pinned tree, repaired). (F) also covers running positions: a counter started from a constant inside a fragment evaluator is fragment-local, one started from fragment.offset() is global.",
   design_ref="DESIGN.md §3 C14")
CHECKS["C08"] = dict(
   technique="static analysis: symbolic evaluation of MIR into polynomial normal forms over F_p (E5) + exact number theory on extracted constants (E6) + layout/dataflow rules",
   text="Proof-strength for the algebraic clause under one stated assumption. For every impl ExtensibleField<d> (f62, f64: d=2,3; f128: d=2) the "
        "MIR of mul, square, mul_base and frobenius is executed on symbolic coordinates; the resulting polynomials equal the schoolbook product "
        "reduced by the documented irreducible, a*a, a*(c,0,..) and x^p (phi^p computed exactly; the Frobenius constants are thereby checked), for "
        "ALL operands. The generic QuadExtension/CubeExtension operators, the base-field embedding, conjugate and inv are evaluated per supported "
        "field with trait calls inlined: inv returns its argument only when every coordinate is zero and otherwise N/n with x*N == (n,0,..) "
        "identically; the modulus polynomials are irreducible over the (Lucas-certified prime) moduli. Layout: repr(C), d fields of B, slice "
        "lengths scaled by exactly EXTENSION_DEGREE == d. ASSUMED (decided for canonical results by C07, not here): the base-field operators "
        "+ - * neg double square inv compute the ring operations on every internal representation they can meet.",
   design_ref="DESIGN.md §3 C08")
CHECKS["C10"] = dict(
   technique="static analysis: must-guard dominance (E2) on the root recomputation + path-sensitive interval/taint abstract interpretation of MIR with relational and for-all-element facts (E4) + dataflow rule on into_paths' result",
   text="Decides the structural half of the negative direction. (G) every successful BatchMerkleProof::get_root / MerkleTree::verify_batch / "
        "MerkleTree::verify passes the shape decisions with the canonical comparison (empty / too many positions, depth bound, every position "
        "< 2^depth, duplicates, node-vector count, single root, recomputed root == root handed in). (E4) with all fields of the opening, the "
        "position list and single paths attacker-controlled, no overflow / bounds / unwrap / explicit panic site in get_root, into_paths, verify, "
        "verify_batch, deserialize remains unproven when its operands were compared at all; loop-counter indexes whose bound is an inductive "
        "invariant are listed as undecided. (O) into_paths answers in the caller's position order. NOT decided: that honest openings verify, "
        "from_paths/into_paths round trips, and that a changed leaf or node changes the root (collision resistance of the hash). (L) one layout convention for `leaves`: readers index through map_indexes, builders through a position map, never the rank in the sorted list.  Parallel indexing: a caller-ordered parameter is never read with the counter that indexes a list re-ordered through a BTreeMap.",
   design_ref="DESIGN.md §3 C10")
CHECKS["C01"] = dict(
   technique="static analysis: abstract interpretation over the honest parameter range (E4), writer/reader token-grammar comparison (E7), must-pass-through on the expanded prover and verifier CFGs (E1), dataflow unit rule (E3)",
   text="Completeness as a whole is numerical and is NOT decided. Decided are structural necessary conditions whose violation makes the "
        "verifier reject or panic on honest proofs: (HR) Table::from_bytes and Queries::parse neither panic nor fail independently of the bytes "
        "for any row/column count inside the limits the constructors themselves document (1..=MAX_NUM_QUERIES, 1..=MAX_TRACE_WIDTH); (S1) every type "
        "reachable from Proof's reader has identical writer and reader token grammars (round trip consumes exactly what was written); (T) prover "
        "and verifier drive the public coin through the same documented event order with the absorbed value being the value carried in the "
        "proof; (U) the prover's pre-evaluated boundary constraints use constraint-evaluation-domain units; (X, A) the FRI verifier exempts the "
        "remainder from the divisibility test, tests the bound of the current layer, and agrees with the prover on the layer schedule; (COLS) "
        "the number of composition columns is max(1, ceil((D+1)/trace_length)) for the composition degree D, compared symbolically on a grid "
        "containing the multiples of the trace length. (WIDTH) no length prefix of a proof component truncates the length of an ordinary legal proof; (DERIVED) a field computed at construction from the variable that initialises another field is re-assigned by every setter of that field (no stale cached column count); (SENT) the FRI remainder placed in the proof is the committed one; (FOLDABLE) the FRI proof parser's foldability test looks at the domain of the layer being parsed; (DEG) the prover's degree checks on the DEEP composition polynomial are upper bounds, so valid degenerate traces (constant columns) do not make the honest prover panic (genuine defect F33, repaired).",
   design_ref="DESIGN.md §3 C01")
CHECKS["C06"] = dict(
   technique="static analysis: inter-procedural, path-sensitive abstract interpretation of MIR (intervals + power-of-two + lengths + variant sets + relational facts on tagged values) with taint from the byte readers",
   text="Static proof that in Proof::from_bytes and everything it reaches, in Proof::security_level and in VerifierChannel::new with all sub-parsers "
        "(commitments, queries, tables, OOD frame, FRI proof and layers, batch Merkle proof deserialisation) no integer derived from input bytes "
        "reaches an overflow/underflow, division, pow/ilog2, bounds, unwrap, explicit-panic or pre-allocation site without having been proved "
        "safe on that path. Obligations whose deciding operand is the length of a sequence built in a loop are counted as undecided, not as "
        "alarms. Rule G adds the structural guards that protect panic sites outside the interpreter's scope (FRI layer count, optional "
        "components never unwrapped, base-field decision before the context is interpreted, Lagrange kernel frame size, one leaf per opened "
        "position, number of queries below the LDE domain size). Rule AC analyses the AirContext constructors with the proof's trace info and "
        "options as attacker-controlled arguments: eight of their assertions are reachable from proof bytes (confirmed by tests), have no small "
        "safe repair (Air::new cannot fail) and are reported as KNOWN-FINDING (known_findings.json); a further one would be a VIOLATION. Not "
        "covered: the rest of the transcript replay / DEEP / FRI query phase of verify(), assertions written by AIR authors in Air::new, "
        "termination, memory other than pre-allocation by unchecked counts. Lengths handed to bulk reads (read_vec/read_slice/read_string/check_eor) are obligations too: an input-chosen length near usize::MAX must not reach the slice reader's `pos + n` test. get_root's node-vector count guard is part of rule G.",
   design_ref="DESIGN.md §3 C06",
   note="Additional assumptions: std transfer functions for ~60 core/alloc functions; associated constants ELEMENT_BYTES <= 64, EXTENSION_DEGREE <= 3; "
        "untainted (AIR-defined) operands below 2^32 when deciding whether an overflow is attacker-driven; contract for Context::num_modulus_bits.")
CHECKS["C16"] = dict(
   technique="static analysis: symbolic expression extraction from the MIR of the divisor constructors with private helpers inlined (shape of the exemption range, degree/exponent/domain of the assertion divisor), path-wise evaluation of get_num_steps on a finite model of all assertion kinds, data-flow dependence of the divisor evaluator",
   text="The property as a whole is number theory over lengths, strides and steps and is NOT decided. Decided are four structural necessary "
        "conditions, each of which, when broken, moves a divisor's zero set off the intended steps for a whole class of inputs while prover and "
        "verifier (sharing the functions) stay in agreement: (EXEMPT) ConstraintDivisor::from_transition(n, k) exempts exactly the points g^s, "
        "n-k <= s < n (decided for the mapped-range and push-loop forms; a shifted window or a running point multiplied by itself is reported; "
        "other forms are reported as not decided); (ADIV) from_assertion builds x^k - g^(k*first_step) with k = get_num_steps, g the generator of "
        "the trace domain, the constant 1 only behind first_step == 0, and no exemption points; (NSTEPS) get_num_steps returns 1 / n/stride / "
        "the number of values for single / periodic / sequence assertions, whatever the order and spelling of its tests; (EVAL) the divisor's "
        "evaluate_at depends on the degree and constant of every numerator term, on every exemption point and on x; (OVERLAP) prepare_assertions compares a new assertion with the whole accepted set; (KIND) a one-value sequence is stored as a single-step assertion; (GROUPKEY) the divisor group of an assertion is chosen by its stride and its first step: both take part in the choice, a computed map key is injective on a model of all assertion kinds, and in a run-detection form a change of either value creates a new group before the assertion is added. NOT decided: the zero sets "
        "as such, the interpolated value polynomials and their domain shift, the overlap predicate, the bounds on the number of exemptions, "
        "refusal of ill-formed assertions.",
   design_ref="DESIGN.md §4 (C16), §9.8")
NA = {
 "C09": "Static analysis does not apply (DESIGN.md §4). Every clause is an equality between vectors of field elements computed by loops whose trip counts, "
        "strides and index permutations are runtime sizes (butterfly indices, bit-reversal, chunked coset offsets, segment transposition). Nothing about the "
        "behaviour is visible in the shape of the code; the only abstract domains in reach (intervals, order facts, polynomial normal forms of loop-free "
        "code) cannot relate butterfly index arithmetic to polynomial evaluation, and unrolling the loops for concrete sizes would be running the code, which "
        "this technique family excludes. No structural clause is a necessary condition here that the 220 tests do not already exercise.",
 "C20": "Static analysis does not apply (DESIGN.md §4). Algebraic identities (q*d + r = p, interpolation inverts evaluation, x*inv(x) = 1 element-wise) over "
        "vectors of arbitrary length computed by data-dependent loops; the symbolic polynomial engine (E5) handles loop-free code only and the interval engine "
        "says nothing about field values. No structural necessary condition beyond what unit tests already cover was identified.",
}
PENDING = "no check built"

checks = []
for pid in ALL:
    if pid in CHECKS:
        c = CHECKS[pid]
        checks.append({
            "property_id": pid,
            "quick_cmd": f"./bin/wfcheck {pid} --tier quick",
            "thorough_cmd": f"./bin/wfcheck {pid} --tier thorough",
            "evidence_file": f"/verif/evidence/{pid}.json",
            "replay_cmd_template": "./bin/wfcheck explain {path}",
            "engine": "wfa",
            "level_claimed": {"category": "other", "text": c["text"], "design_ref": c["design_ref"]},
            "level_note": TRUST + (" " + c["note"] if c.get("note") else ""),
            "technique": c["technique"],
        })
na = [{"property_id": p, "reason": NA.get(p, PENDING)} for p in ALL if p not in CHECKS]
m = {
 "version": 1,
 "setup_cmd": "cd /verif/driver && CARGO_NET_OFFLINE=true cargo +nightly build --release --offline",
 "hooks": {"guard": "nashtare_winterfell_verif",
           "enable": "none needed: no hooks are compiled into /repo; checks read the MIR of the unmodified sources through a rustc driver (RUSTC_WORKSPACE_WRAPPER)",
           "baseline_off_cmd": "cd /repo && cargo test --workspace --no-fail-fast --offline",
           "source_commits": [], "add_only": True},
 "engines": [
   {"name": "wf-facts", "path": "driver/", "serves_properties": sorted(CHECKS), "kind_free_text": "rustc_private driver dumping MIR/const/ADT/impl facts as JSON (nightly, zero cargo deps)"},
   {"name": "wfa", "path": "wfa/", "serves_properties": sorted(CHECKS), "kind_free_text": "Python static analyser: CFG must-pass, flow-sensitive dependence, expanded supergraph, rule packs per property"},
 ],
 "checks": checks,
 "not_applicable": na,
 "notes": "Technique family: static analysis. Every check re-extracts facts from /repo's current working tree (cached by content hash of the sources). Exit 2 + 'BROKEN' = machinery could not decide (missing anchor / floor / control), never used for a violation.",
}
json.dump(m, open(os.path.join(V, "MANIFEST.json"), "w"), indent=1)
print("checks:", [c["property_id"] for c in checks], "n/a:", len(na))
