#!/usr/bin/env python3
"""matrix_own.py [--jobs N]: every seeded change against the check of ITS OWN property only (plus the checks listed in OWN_EXTRA for seeds
known to be another property's business) — the quick regression pass; the full table (every check x every variant) is tools/matrix.py.
Writes seeded/MATRIX_own.json / MATRIX_own.md. Development-time tool."""
import json, os, re, subprocess, sys, tempfile, time, shutil
from concurrent.futures import ThreadPoolExecutor
V = os.path.dirname(os.path.dirname(os.path.abspath(__file__)))
REPO = "/repo"
jobs = int(sys.argv[sys.argv.index("--jobs") + 1]) if "--jobs" in sys.argv else 6
OWN_EXTRA = {"C03-L": ["C04"], "C12-M": ["C13"], "C04-M": ["C19"], "C03-N": ["C11"], "C12-B": ["C13"], "C12-C": ["C13"], "C12-G": ["C13"],
             "C19-D": ["C11"], "C17-L": ["C01"], "C19-L": ["C07"]}
man = json.load(open(os.path.join(V, "MANIFEST.json")))
claimed = {c["property_id"] for c in man["checks"]}
seeds = sorted(d for d in os.listdir(os.path.join(V, "seeded")) if os.path.exists(os.path.join(V, "seeded", d, "patch.diff")))

def prop_of(name):
    m = re.match(r"(C\d\d)-", name) or re.search(r"-(C\d\d)$", name)
    return m.group(1) if m else None

def run(name):
    p = prop_of(name)
    checks = [c for c in [p] + OWN_EXTRA.get(name, []) if c in claimed]
    if name.startswith("fixed-F25"):
        return name, {"_note": "thorough tier only"}
    wt = tempfile.mkdtemp(prefix=f"mo_{name}_", dir="/tmp"); os.rmdir(wt)
    subprocess.run(["git", "-C", REPO, "worktree", "add", "-q", "--detach", wt, "HEAD"], capture_output=True)
    res = {}
    try:
        a = subprocess.run(["git", "-C", wt, "apply", os.path.join(V, "seeded", name, "patch.diff")], capture_output=True, text=True)
        if a.returncode != 0:
            return name, {"_apply": a.stderr.strip()[:200]}
        env = dict(os.environ, WF_REPO=wt, WF_EVIDENCE_DIR=os.path.join(wt, "_ev"))
        for c in checks:
            pr = subprocess.run([os.path.join(V, "bin", "wfcheck"), c], capture_output=True, text=True, env=env, cwd=V)
            res[c] = {"rc": pr.returncode, "keys": re.findall(r"^--- (\S+)", pr.stdout, re.M)}
    finally:
        subprocess.run(["git", "-C", REPO, "worktree", "remove", "--force", wt], capture_output=True)
        shutil.rmtree(wt, ignore_errors=True)
    return name, res

t0 = time.time()
out = {}
with ThreadPoolExecutor(jobs) as ex:
    for name, res in ex.map(run, seeds):
        out[name] = res
json.dump(out, open(os.path.join(V, "seeded", "MATRIX_own.json"), "w"), indent=1)
lines = ["# Seeded changes x the check of their own property (quick regression pass)", "",
         "`V` reported, `.` silent, `B` BROKEN; extra columns are the checks of other properties a seed is known to belong to.", "",
         "| variant | result | keys |", "|---|---|---|"]
nv = nb = ns = 0
for name in seeds:
    r = out[name]
    if "_apply" in r or "_note" in r:
        lines.append(f"| {name} | - | {r.get('_apply') or r.get('_note')} |"); continue
    cells, keys = [], []
    for c, x in r.items():
        cells.append(f"{c}:{'V' if x['rc'] == 1 else ('B' if x['rc'] == 2 else '.')}")
        keys += x["keys"][:2]
    hit = any(x["rc"] == 1 for x in r.values()); brk = any(x["rc"] == 2 for x in r.values())
    nv += hit; nb += (brk and not hit); ns += (not hit and not brk)
    lines.append(f"| {name} | {' '.join(cells)} | {' '.join(keys)[:160]} |")
lines += ["", f"reported: {nv}, broken: {nb}, silent: {ns}, wall {time.time() - t0:.0f}s"]
open(os.path.join(V, "seeded", "MATRIX_own.md"), "w").write("\n".join(lines) + "\n")
print(lines[-1])
