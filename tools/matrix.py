#!/usr/bin/env python3
"""matrix.py [--jobs N] [--only Cxx,...] : run every registered check against the clean tree and against every seeded
change under /verif/seeded/*/patch.diff, each in its own scratch worktree of /repo (outside /repo and /verif), and
write /verif/seeded/MATRIX.json + MATRIX.md.  Development-time tool (not a registered command)."""
import json, os, re, shutil, subprocess, sys, tempfile, time
from concurrent.futures import ThreadPoolExecutor

V = os.path.dirname(os.path.dirname(os.path.abspath(__file__)))
REPO = os.environ.get("MATRIX_REPO", "/repo")
jobs = 6
only = None
args = sys.argv[1:]
if "--jobs" in args:
    jobs = int(args[args.index("--jobs") + 1])
if "--only" in args:
    only = args[args.index("--only") + 1].split(",")
SUB = "seeded"
if "--dir" in args:
    SUB = args[args.index("--dir") + 1]   # e.g. `refactorings`: behaviour-preserving changes, every cell is expected to be silent
man = json.load(open(os.path.join(V, "MANIFEST.json")))
checks = [c["property_id"] for c in man["checks"]]
if only:
    checks = [c for c in checks if c in only]
seeds = sorted(d for d in os.listdir(os.path.join(V, SUB)) if os.path.exists(os.path.join(V, SUB, d, "patch.diff")))
OUT = "MATRIX"
if "--variants" in args:
    # only the variants whose name starts with one of the given prefixes; results go to MATRIX_partial.* (the full table is not overwritten)
    pref = tuple(args[args.index("--variants") + 1].split(","))
    seeds = [d for d in seeds if d.startswith(pref)]
    OUT = "MATRIX_partial"


def run_variant(name):
    wt = tempfile.mkdtemp(prefix=f"mx_{name}_", dir="/tmp")
    os.rmdir(wt)
    r = subprocess.run(["git", "-C", REPO, "worktree", "add", "-q", "--detach", wt, "HEAD"], capture_output=True, text=True)
    res = {}
    try:
        if name != "clean":
            a = subprocess.run(["git", "-C", wt, "apply", os.path.join(V, SUB, name, "patch.diff")], capture_output=True, text=True)
            if a.returncode != 0:
                return name, {"_apply": a.stderr.strip()[:200]}
        env = dict(os.environ, WF_REPO=wt, WF_EVIDENCE_DIR=os.path.join(wt, "_ev"))
        for c in checks:
            t0 = time.time()
            p = subprocess.run([os.path.join(V, "bin", "wfcheck"), c], capture_output=True, text=True, env=env, cwd=V)
            keys = re.findall(r"^--- (\S+)", p.stdout, re.M)
            res[c] = {"rc": p.returncode, "keys": keys, "s": round(time.time() - t0, 1),
                      "broken": (p.stderr.strip().splitlines() or [""])[-1][:200] if p.returncode == 2 else ""}
    finally:
        subprocess.run(["git", "-C", REPO, "worktree", "remove", "--force", wt], capture_output=True)
        shutil.rmtree(wt, ignore_errors=True)
    return name, res


t0 = time.time()
with ThreadPoolExecutor(max_workers=jobs) as ex:
    results = dict(ex.map(run_variant, ["clean"] + seeds))
json.dump(results, open(os.path.join(V, SUB, OUT + ".json"), "w"), indent=1)
lines = ["# Seeded changes x checks", "",
         "`V` = VIOLATION reported (exit 1), `.` = silent (exit 0), `B` = BROKEN (exit 2). Row `clean` is the unchanged tree.", "",
         "| variant | " + " | ".join(checks) + " | caught by |", "|---|" + "---|" * (len(checks) + 1)]
for name in ["clean"] + seeds:
    r = results[name]
    if "_apply" in r:
        lines.append(f"| {name} | patch does not apply: {r['_apply']} |")
        continue
    cells = ["V" if r[c]["rc"] == 1 else ("B" if r[c]["rc"] == 2 else ".") for c in checks]
    caught = [c for c in checks if r[c]["rc"] == 1]
    lines.append(f"| {name} | " + " | ".join(cells) + " | " + ", ".join(caught) + " |")
open(os.path.join(V, SUB, OUT + ".md"), "w").write("\n".join(lines) + "\n")
print("\n".join(lines))
print(f"wall {time.time() - t0:.0f}s")
