#!/bin/bash
# usage: try_seed.sh <variant> Cxx [Cyy...]  -- one line: the keys reported for seeded/<variant>/patch.diff
v="$1"; shift
echo -n "$v: "; /verif/tools/try_patch.sh /verif/seeded/$v/patch.diff "$@" 2>&1 | grep -E "^---|BROKEN" | cut -c1-130 | tr '\n' ' '; echo
