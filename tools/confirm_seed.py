#!/usr/bin/env python3
"""confirm_seed.py <worktree> <A|B> -> confirms a seeded change independently of the agent's report:
  1. demo passes on the clean worktree, 2. with the patch: workspace builds, whole existing suite
  passes, 3. with the patch the demo fails.  Writes SEED/<X>/confirm.json and leaves the worktree clean."""
import json, os, re, shutil, subprocess, sys, time

wt, X = sys.argv[1], sys.argv[2]
sd = os.path.join(wt, "SEED", X)
env = dict(os.environ, CARGO_NET_OFFLINE="true")

def sh(cmd, timeout=3600):
    t0 = time.time()
    r = subprocess.run(cmd, shell=True, cwd=wt, env=env, stdout=subprocess.PIPE, stderr=subprocess.STDOUT, text=True, timeout=timeout)
    return r.returncode, r.stdout, time.time() - t0

readme = open(os.path.join(sd, "demo", "README.md")).read()
line = next(l for l in readme.splitlines() if "cargo test" in l and "--test" in l)
pk = re.search(r"-p (\S+)", line).group(1)
name = re.search(r"--test (\S+)", line).group(1).rstrip("`")
ft = re.search(r"--features (\S+)", line)
sel = ("--release " if "--release" in line else "") + f"-p {pk} " + (f"--features {ft.group(1)} " if ft else "") + f"--test {name}"
demo_files = [f for f in os.listdir(os.path.join(sd, "demo")) if f.endswith(".rs")]
dst = None
m2 = re.search(r"([\w/]+/tests)/" + re.escape(name) + r"\.rs", readme)
if m2:
    dst = m2.group(1).lstrip("/")
else:
    m3 = re.search(r"`?([\w/]+/tests)/?`?", readme)
    dst = m3.group(1)
res = {"worktree": wt, "seed": X, "demo_cmd": f"cargo test --offline {sel}", "demo_dst": dst}

def put_demo():
    os.makedirs(os.path.join(wt, dst), exist_ok=True)
    for f in demo_files:
        shutil.copy(os.path.join(sd, "demo", f), os.path.join(wt, dst, f))

def rm_demo():
    for f in demo_files:
        p = os.path.join(wt, dst, f)
        if os.path.exists(p):
            os.remove(p)
    try:
        os.rmdir(os.path.join(wt, dst))
    except OSError:
        pass

sh("git checkout -- .")
put_demo()
rc, out, dt = sh(f"cargo test --offline {sel}")
res["demo_clean_rc"] = rc
res["demo_clean_tail"] = out[-600:]
rm_demo()
rc, out, dt = sh(f"git apply SEED/{X}/patch.diff")
res["apply_rc"] = rc
rc, out, dt = sh("cargo build --workspace --offline")
res["build_rc"] = rc
rc, out, dt = sh("cargo test --workspace --no-fail-fast --offline")
res["suite_rc"] = rc
res["suite_results"] = re.findall(r"test result: (\w+)\. (\d+) passed; (\d+) failed", out)
res["suite_passed"] = sum(int(x[1]) for x in res["suite_results"])
res["suite_failed"] = sum(int(x[2]) for x in res["suite_results"])
put_demo()
rc, out, dt = sh(f"cargo test --offline {sel}")
res["demo_patched_rc"] = rc
res["demo_patched_tail"] = out[-900:]
rm_demo()
sh("git checkout -- .")
res["confirmed"] = (res["demo_clean_rc"] == 0 and res["apply_rc"] == 0 and res["build_rc"] == 0 and
                    res["suite_rc"] == 0 and res["suite_failed"] == 0 and res["demo_patched_rc"] != 0)
json.dump(res, open(os.path.join(sd, "confirm.json"), "w"), indent=1)
print(X, wt, "confirmed" if res["confirmed"] else "NOT CONFIRMED", {k: res[k] for k in ("demo_clean_rc", "build_rc", "suite_rc", "suite_passed", "suite_failed", "demo_patched_rc")})
