#!/bin/bash
# usage: import_seed.sh <worktree> <Cxx> <A|B> <new letter>   -- copy SEED/<X> of a finished seeding agent to /verif/seeded/<Cxx>-<new letter>
set -eu
wt="$1"; c="$2"; x="$3"; n="$4"
d=/verif/seeded/$c-$n
mkdir -p "$d"
cp -r "$wt/SEED/$x/." "$d/"
echo "imported $d: $(ls $d | tr '\n' ' ')"
