#!/bin/bash
# usage: try_patch.sh <patch.diff> <Cxx> [Cyy...]  -- apply patch to /repo, run the checks, undo
# (evidence of these runs goes to a scratch directory: /verif/evidence must only ever hold runs on the unchanged tree)
set -u
P="$1"; shift
cd /repo || exit 2
if ! git diff --quiet; then echo "/repo has uncommitted changes"; exit 2; fi
git apply "$P" || { echo "patch does not apply"; exit 2; }
for c in "$@"; do
  WF_EVIDENCE_DIR=${WF_EVIDENCE_DIR:-/tmp/wf_try_evidence} /verif/bin/wfcheck "$c" 2>&1 | grep -E "^(VIOLATION|KNOWN|BROKEN|\[C|---|    )" | cut -c1-260 | head -${LINES_MAX:-30}
  echo "   => exit ${PIPESTATUS[0]}"
done
git -C /repo checkout -- . 
