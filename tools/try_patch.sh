#!/bin/bash
# usage: try_patch.sh <patch.diff> <Cxx> [Cyy...]  -- apply patch to /repo, run the checks, undo
set -u
P="$1"; shift
cd /repo || exit 2
if ! git diff --quiet; then echo "/repo has uncommitted changes"; exit 2; fi
git apply "$P" || { echo "patch does not apply"; exit 2; }
for c in "$@"; do
  /verif/bin/wfcheck "$c" 2>&1 | grep -E "^(VIOLATION|KNOWN|BROKEN|\[C|---|    )" | cut -c1-260 | head -${LINES_MAX:-30}
  echo "   => exit ${PIPESTATUS[0]}"
done
git -C /repo checkout -- . 
