#!/bin/bash
# usage: process_seeds.sh <worktree prefix, e.g. /tmp/seed6_> <letter for A> <letter for B> Cxx [Cyy ...]
# confirms (confirm_seed.py), imports (import_seed.sh) and runs the own-property check of every delivered seed. Development tool.
set -u
PFX="$1"; LA="$2"; LB="$3"; shift 3
cd /verif
for c in "$@"; do
  for pair in "A $LA" "B $LB"; do
    set -- $pair; x=$1; l=$2
    [ -d "${PFX}${c}/SEED/$x" ] || { echo "$c $x: not delivered"; continue; }
    python3 tools/confirm_seed.py ${PFX}${c} $x > /tmp/confirm_${c}_$x.log 2>&1
    ok=$(python3 -c "
import json;d=json.load(open('${PFX}${c}/SEED/$x/confirm.json'));print(d.get('confirmed'), {k:d.get(k) for k in ('demo_clean_rc','build_rc','suite_rc','demo_patched_rc')})")
    echo "$c $x -> $c-$l confirmed=$ok"
    case "$ok" in True*) tools/import_seed.sh ${PFX}${c} $c $x $l >/dev/null; echo "$x ${PFX}${c} confirmed" >> seeded/CONFIRM_LOG.txt;; esac
  done
done
